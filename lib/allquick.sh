#!/bin/bash
# allquick.sh [jobs]: every quick check on the unchanged tree, <jobs> at a time (default 2); one line each.
# Run from /verif against /repo: the evidence files it leaves are the ones to commit.
jobs=${1:-2}
cd "$(dirname "$0")/.."
[ -z "$(git -C /repo status --porcelain)" ] || { echo "/repo is not clean"; exit 2; }
./check setup >/dev/null 2>&1
run() { p=$1; t0=$(date +%s); ./check $p --tier quick > work/all_$p.log 2>&1; rc=$?; t1=$(date +%s);
        echo "$p exit=$rc wall=$((t1-t0))s $(grep -E '^(VIOLATION|OK)' work/all_$p.log | head -2 | tr '\n' ' ') known=$(grep -c '^KNOWN-FINDING' work/all_$p.log) drift=$(grep -c '^DRIFT' work/all_$p.log)"; }
export -f run
printf "%s\n" C03 C10 C04 C12 C13 C08 C01 C07 C05 C06 C11 C15 C16 C14 C02 C09 C17 | xargs -P $jobs -I{} bash -c 'run {}'
