#!/bin/bash
for p in "$@"; do python3 lib/seedtest.py $p 2>&1 | tail -3; done
