#!/bin/bash
# seedbatch.sh <id>[:<check>] ...  runs lib/seedtest.py for each seeded change
for x in "$@"; do id=${x%%:*}; chk=${x#*:}; [ "$chk" = "$x" ] && chk=""; chk=${chk//,/ }; python3 lib/seedtest.py $id $chk 2>&1 | tail -4; done
