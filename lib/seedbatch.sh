#!/bin/bash
# seedbatch.sh <id>[:<check>] ...  runs lib/seedtest.py for each seeded change
for x in "$@"; do id=${x%%:*}; chk=${x#*:}; [ "$chk" = "$x" ] && chk=""; python3 lib/seedtest.py $id $chk 2>&1 | tail -2; done
