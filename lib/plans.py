"""What each property's check runs, per tier."""
import json
import os
import re
import shutil
import time

import vcheck as V
from vcheck import log, ToolError

# ---------------------------------------------------------------------------
# model-checking configurations of MC_Unsync (Layer I x monitor)


def U(slice_, nkeys=3, vals=(1, 2), weights=(1,), maxt=3, period=6, timeout=600):
    return dict(module="MC_Unsync.tla", slice=slice_, nkeys=nkeys, vals=set(vals), weights=set(weights),
                maxt=maxt, period=period, timeout=timeout)


# emission (mode R) configurations: real constants, depth bound
def RU(slice_, nkeys=3, vals=(1, 2), weights=(1,), maxt=3, depth=5):
    return dict(module="MC_Unsync.tla", slice=slice_, nkeys=nkeys, vals=set(vals), weights=set(weights),
                maxt=maxt, depth=depth)


# ---------------------------------------------------------------------------
# model-checking configurations of MC_Sync


def S(slice_, nkeys=2, vals=(1, 2), weights=(1,), maxt=2, depth=7, timeout=600, dev=None, flush=2, log_=3):
    return dict(module="MC_Sync.tla", slice=slice_, nkeys=nkeys, vals=set(vals), weights=set(weights),
                maxt=maxt, depth=depth, timeout=timeout, dev=dev, flush=flush, log=log_)


def constants_smc(c, props, emit=False, real=False, dev=None):
    d = V.SDEV if dev is None else dev
    k = {"NKeys": c["nkeys"], "MaxInfo": 3 * c["nkeys"] + 2, "Period": 1280 if real else 6,
         "Dev": set(c["dev"] if c.get("dev") is not None else d), "Slice": c["slice"], "Vals": c["vals"],
         "Weights": c["weights"], "MaxT": c["maxt"], "CheckProps": set(props), "Emit": emit,
         "MaxDepth": c["depth"]}
    if real:
        k.update({"RLog": 384, "WLog": 384, "Flush": 64, "MaxRepeats": 4, "SBatch": 500})
    else:
        k.update({"RLog": c["log"], "WLog": c["log"], "Flush": c["flush"], "MaxRepeats": 4, "SBatch": 6})
    return k


def RS(slice_, nkeys=2, vals=(1, 2), weights=(1,), maxt=2, depth=5):
    return dict(module="MC_Sync.tla", slice=slice_, nkeys=nkeys, vals=set(vals), weights=set(weights),
                maxt=maxt, depth=depth, dev=None, flush=2, log=3)


# slices by name, quick sizes (measured: 2-20 s each at 8-12 workers)
Q = {
    "cap2": U("cap2"),
    "cap2k2": U("cap2", nkeys=2),
    "expiry2": U("expiry", nkeys=2, maxt=3),
    "cap_const2": U("cap_const", nkeys=2, weights=(1, 2)),
    "cap1_ttl": U("cap1_ttl", nkeys=2, maxt=3),
    "cap1_ttl0": U("cap1_ttl0", nkeys=2, maxt=2),
    "cap2_tti": U("cap2_tti", nkeys=2, maxt=3),
    "cap_weight2": U("cap_weight", nkeys=2, weights=(0, 1, 2, 5)),
    # concurrent cache, sequential client, every history of fewer than `depth` calls (MaxDepth = depth)
    "s_cap1": S("cap1", depth=6),
    "s_cap2_w": S("cap2_w", weights=(0, 1, 5), depth=5),
    "s_cap1_ttl": S("cap1_ttl", depth=6),
    "s_cap2_tti": S("cap2_tti", depth=6),
    "s_ttl_tti": S("ttl_tti", depth=6),
    "s_nocap": S("nocap", depth=6),
    "s_cap2_ttl_w": S("cap2_ttl_tti_w", weights=(1, 2), depth=5),
}
# thorough sizes (minutes; each under its own time limit)
T = {
    "cap_unit": U("cap_unit", timeout=900),
    "cap_weight3": U("cap_weight", weights=(0, 1, 2), timeout=600),
    "cap_weight2": U("cap_weight", nkeys=2, weights=(0, 1, 2, 5), timeout=900),
    "expiry3": U("expiry", maxt=4, timeout=900),
    "cap_const3": U("cap_const", weights=(0, 1, 2), timeout=900),
    "cap1_ttl": U("cap1_ttl", nkeys=2, maxt=4, timeout=900),
    "cap2_tti3": U("cap2_tti", nkeys=3, maxt=3, timeout=600),
    "cap2_ttl_tti_w": U("cap2_ttl_tti_w", nkeys=2, weights=(1, 2), maxt=3, timeout=900),
    "cap1_ttl0": U("cap1_ttl0", nkeys=3, maxt=2, timeout=900),
    "s_cap1": S("cap1", depth=9, timeout=1500),
    "s_cap2": S("cap2", depth=8, timeout=1500),
    "s_cap_unit": S("cap_unit", depth=7, timeout=1500),
    "s_cap2_w": S("cap2_w", weights=(0, 1, 2, 5), depth=7, timeout=1500),
    "s_cap_const": S("cap_const", weights=(1, 2), depth=7, timeout=1500),
    "s_cap1_ttl": S("cap1_ttl", depth=8, timeout=1500),
    "s_cap2_tti": S("cap2_tti", depth=8, timeout=1500),
    "s_expiry": S("expiry", depth=7, timeout=1500),
    "s_cap2_ttl_tti_w": S("cap2_ttl_tti_w", weights=(1, 2), depth=7, timeout=1500),
    "s_cap1_k3": S("cap1", nkeys=3, depth=7, timeout=1500),
}
RQ = [RU("cap2", depth=5), RU("ttl_tti", nkeys=2, depth=5), RU("cap_weight", nkeys=2, weights=(0, 1, 2, 5), depth=4),
      RS("cap1", depth=5), RS("cap2_ttl_tti_w", weights=(1, 5), depth=4)]
RT = [RU("ttl2", nkeys=2, depth=7), RU("tti2", nkeys=2, depth=7), RU("cap_unit", depth=6), RU("cap_weight", weights=(0, 1, 2, 5), depth=5), RU("expiry", depth=5, maxt=4),
      RU("cap_exp", nkeys=2, weights=(1, 2), depth=6), RU("cap_const", nkeys=3, weights=(0, 1, 2), depth=6),
      RS("cap_unit", depth=6), RS("cap2_w", weights=(0, 1, 2, 5), depth=5), RS("cap1_ttl", depth=7),
      RS("cap2_tti", depth=7), RS("cap2_ttl_tti_w", weights=(1, 5), depth=6), RS("cap_const", weights=(1, 2), depth=6),
      RS("cap1", nkeys=3, depth=6)]
VQ = [("unsync-small", 120, 40), ("unsync-mid", 30, 120), ("sync-small", 120, 40), ("sync-mid", 30, 120),
      ("sync-eager", 40, 60), ("sync-far", 150, 16), ("sync-burst", 200, 3), ("sync-stale", 600, 0), ("sync-mixed", 600, 0), ("sync-flush", 14, 0), ("sync-grow", 100, 2),
      ("unsync-batch", 16, 0), ("sync-batch", 2, 0), ("sync-reads", 2, 0), ("sync-evict", 1, 0), ("unsync-fill", 1, 0), ("unsync-admit", 900, 0), ("sync-admit", 500, 0), ("unsync-exp", 500, 30), ("sync-exp", 120, 30)]
VT = [("unsync-small", 2000, 60), ("unsync-mid", 400, 400), ("sync-small", 2000, 60), ("sync-mid", 400, 400),
      ("sync-eager", 600, 120), ("sync-far", 6000, 20), ("sync-burst", 2500, 4), ("sync-stale", 5000, 0), ("sync-mixed", 6000, 0), ("sync-flush", 60, 0), ("sync-grow", 1200, 2),
      ("unsync-batch", 120, 0), ("sync-batch", 12, 0), ("sync-reads", 12, 0), ("sync-evict", 8, 0), ("unsync-fill", 8, 0), ("unsync-admit", 9000, 0), ("sync-admit", 9000, 0), ("unsync-exp", 4000, 40), ("sync-exp", 2000, 40)]

QSLICES = {
    "C01": ["cap2", "expiry2", "cap_const2", "s_cap1", "s_ttl_tti"],
    "C03": ["cap2", "cap_weight2", "cap1_ttl", "cap2_tti", "s_cap1", "s_cap1_ttl", "s_cap2_tti"],
    "C04": ["cap2", "cap_weight2", "cap_const2", "s_cap1", "s_cap2_w"],
    "C05": ["expiry2", "cap1_ttl", "cap1_ttl0", "s_cap1_ttl", "s_ttl_tti"],
    "C06": ["expiry2", "cap2_tti", "s_cap2_tti", "s_ttl_tti"],
    "C07": ["cap2k2", "expiry2", "s_cap1", "s_ttl_tti"],
    "C10": ["cap2", "cap_weight2", "cap1_ttl", "s_cap1", "s_cap2_w", "s_cap1_ttl"],
    "C11": ["cap2", "cap1_ttl", "s_cap1", "s_cap1_ttl"],
    "C12": ["cap2", "cap_weight2", "cap2_tti", "s_cap1", "s_cap2_w", "s_cap2_ttl_w"],
    "C13": ["cap2", "cap_weight2", "cap_const2", "s_cap1", "s_cap2_w"],
    "C16": ["cap2", "expiry2", "s_nocap", "s_ttl_tti"],
    "C14": ["cap2", "cap_const2", "s_cap1"],
    "C15": ["cap2", "expiry2", "cap2_tti", "s_cap1", "s_cap2_tti"],
    "C08": ["cap2", "cap_weight2", "cap1_ttl", "s_cap1", "s_cap2_w", "s_cap1_ttl"],
}

# property-specific extra replay slices (quick tier)
# (the one-key slices of the concurrent cache reach depth 7: insert, clock, read, clock, invalidate, sync, read)
_STTI = RS("tti2", nkeys=1, vals=(1,), maxt=3, depth=7)
_STTL = RS("ttl2", nkeys=1, vals=(1,), maxt=3, depth=7)
RQ_EXTRA = {
    "C01": [_STTI],
    "C03": [_STTI],
    "C05": [RU("ttl2", nkeys=2, vals=(1,), depth=6), _STTL],
    "C06": [RU("tti2", nkeys=2, vals=(1,), depth=6), _STTI],
    "C07": [RU("ttl2", nkeys=2, vals=(1,), depth=6), _STTI, _STTL],
}

# the thorough exhaustive slices that bear on each property (C03 and C10, the broadest, take all)
_CAPS = ["cap_unit", "cap_weight3", "cap_weight2", "cap_const3", "s_cap1", "s_cap2", "s_cap_unit", "s_cap2_w",
         "s_cap_const", "s_cap1_k3"]
_EXPS = ["expiry3", "cap1_ttl", "cap2_tti3", "cap2_ttl_tti_w", "cap1_ttl0", "s_cap1_ttl", "s_cap2_tti", "s_expiry",
         "s_cap2_ttl_tti_w"]
TSLICES = {
    "C01": ["cap_unit", "expiry3", "cap_const3", "cap1_ttl", "s_cap1", "s_expiry", "s_cap1_ttl", "s_cap_const"],
    "C03": list(T),
    "C04": _CAPS + ["cap2_ttl_tti_w", "s_cap2_ttl_tti_w"],
    "C05": ["expiry3", "cap1_ttl", "cap1_ttl0", "cap2_ttl_tti_w", "s_cap1_ttl", "s_expiry", "s_cap2_ttl_tti_w"],
    "C06": ["expiry3", "cap2_tti3", "cap2_ttl_tti_w", "s_cap2_tti", "s_expiry", "s_cap2_ttl_tti_w"],
    "C07": ["cap_unit", "s_cap1"] + _EXPS,
    "C08": ["cap_unit", "cap_weight3", "cap1_ttl", "cap2_tti3", "cap2_ttl_tti_w", "s_cap1", "s_cap2_w", "s_cap1_ttl",
            "s_cap2_tti", "s_cap2_ttl_tti_w", "s_cap1_k3"],
    "C10": list(T),
    "C11": ["cap_unit", "cap_weight2", "cap1_ttl", "cap2_tti3", "s_cap1", "s_cap2", "s_cap1_ttl", "s_cap2_tti",
            "s_cap1_k3"],
    "C12": ["cap_unit", "cap_weight3", "cap_weight2", "cap2_tti3", "cap2_ttl_tti_w", "s_cap2", "s_cap_unit", "s_cap2_w",
            "s_cap2_ttl_tti_w", "s_cap1_k3"],
    "C13": _CAPS,
    "C14": ["cap_unit", "cap_const3", "s_cap1", "s_cap_const"],
    "C15": ["cap_unit", "expiry3", "cap2_tti3", "cap2_ttl_tti_w", "s_cap1", "s_cap2_tti", "s_expiry"],
    "C16": ["cap_unit", "expiry3", "cap1_ttl0", "s_expiry", "s_cap1_ttl", "s_cap2_tti"],
}

SEQ_PLANS = {}
for _p, _sl in QSLICES.items():
    SEQ_PLANS[_p] = dict(
        quick=dict(mc=[dict(Q[n], name=n) for n in _sl], r=RQ + RQ_EXTRA.get(_p, []), v=VQ),
        thorough=dict(mc=[dict(T[n], name=n) for n in TSLICES[_p]], r=RT, v=VT))
# the C07 monitor remembers contains_key answers: keep its exhaustive universes at two keys
SEQ_PLANS["C07"]["thorough"]["mc"] = [dict(T[n], name=n, nkeys=2) for n in TSLICES["C07"]] + [dict(Q["cap2"], name="cap2k3", timeout=1200)]


def seq_plan(prop, tier):
    base = SEQ_PLANS.get(prop)
    if base is None:
        return None
    return base[tier]


# ---------------------------------------------------------------------------


def constants_mc(c, props, emit=False, depth=0, period=None):
    return {"NKeys": c["nkeys"], "Batch": 100, "Period": period if period is not None else c.get("period", 6),
            "Dev": set(), "Slice": c["slice"], "Vals": c["vals"], "Weights": c["weights"], "MaxT": c["maxt"],
            "CheckProps": set(props), "Emit": emit, "MaxDepth": depth}


def parse_edges(outp, dest, limit=None):
    """Extracts the behaviours printed by an emission run into an NDJSON file."""
    n = 0
    with open(outp, errors="replace") as f, open(dest, "w") as g:
        for line in f:
            if not line.startswith('<<"EDGE", "'):
                continue
            body = line.strip()[len('<<"EDGE", "'):-len('">>')]
            body = body.replace('\\"', '"')
            b = json.loads(body)
            b["id"] = n
            g.write(json.dumps(b) + "\n")
            n += 1
            if limit and n >= limit:
                break
    return n


class Ctx:
    def __init__(self, prop, tier, seed):
        self.prop, self.tier, self.seed = prop, tier, seed
        self.wd = os.path.join(V.WORK, "%s-%s" % (prop, tier))
        self.t0 = time.time()
        self.mc = []
        self.states = 0
        self.transitions = 0
        self.replayed = 0
        self.replay_events = 0
        self.traces_ok = 0
        self.events = 0
        self.nontrivial = 0
        self.samples = []
        self.violations = []     # (replay path, description)
        self.known = []
        self.drift = []
        self.notes = []
        self.model_failures = []
        self.known_hits = {}
        self.known_history_fails = set()
        self.conform = 0
        self.model_tags = {}

    def violation(self, path, what):
        if path not in [p for p, _ in self.violations]:
            self.violations.append((path, what))


def stage_mc(ctx, runs):
    for i, c in enumerate(runs):
        name = "mc%d_%s" % (i, c.get("name", c["slice"]))
        if c["module"] == "MC_Sync.tla":
            # the intended design (all deviations off) must satisfy the monitor
            r = V.model_check(ctx.wd, name, c["module"], constants_smc(c, [ctx.prop], dev=()), ["Ok", "NoPanic"],
                              constraints=["Stop", "Depth"], view="ViewD", workers=10,
                              timeout=c.get("timeout", 600))
        else:
            r = V.model_check(ctx.wd, name, c["module"], constants_mc(c, [ctx.prop]), ["Ok", "NoPanic"],
                              constraints=["Stop"], workers=10, timeout=c.get("timeout", 600))
        ctx.mc.append({k: r[k] for k in ("name", "distinct", "generated", "ok", "wall_s", "timeout")})
        ctx.states += r["distinct"]
        ctx.transitions += r["generated"]
        if r["timeout"]:
            ctx.notes.append("model-checking run %s hit its time limit after %d distinct states (not exhaustive)"
                             % (name, r["distinct"]))
        elif not r["ok"]:
            ctx.model_failures.append((name, r["violated"] or r["error"], r["out"]))


def witness_of(ctx, events, upto):
    """An open finding of this property whose witness event precedes the rejection, if any."""
    for f in V.load_findings():
        if f.get("status") != "open" or ctx.prop not in f.get("properties", []):
            continue
        tags = set(f.get("witness_tags", []))
        if f.get("witness_scope") == "lost_key_rejected_or_evicted_after_witness":
            # the finding explains the loss of a key only if, inside one maintenance run, the
            # witness event came first and that key was then rejected or evicted
            blamed = set()
            for e in events[:upto + 1]:
                mx = e.get("mx") or []
                seen = False
                for j, m in enumerate(mx):
                    if m.get("t") in tags:
                        seen = True
                    elif m.get("t") in ("upsert.reject", "victim.rm", "evict"):
                        # dead weight was still resident when this was decided: a stale node was met
                        # before, or a dead entry is purged / a queued removal applied later in this run
                        later = any(x.get("t") in ("expire.ao", "expire.wo", "remove") for x in mx[j + 1:])
                        if seen or later:
                            blamed.add(m.get("k"))
            rej = events[upto]
            key = None
            if rej.get("ev") in ("Get", "Contains"):
                key = rej.get("k")
            elif rej.get("ev") == "Sync":
                for e in reversed(events[:upto]):
                    if e.get("ev") == "Insert":
                        key = e.get("k")
                        break
            if blamed and (key is None or key in blamed):
                return f
            continue
        if f.get("witness_event") == "insert_over_dead_entry":
            # an insert on a key whose entry was in the map but dead (hidden by invalidate_all or
            # expired) right before the call
            cfg = events[0]
            ttl, tti = cfg.get("ttl", -1), cfg.get("tti", -1)
            prev = None
            hit = False
            for e in events[:upto + 1]:
                if e.get("ev") == "Insert" and prev is not None:
                    now = e.get("now", 0)
                    va = prev.get("va", -1)
                    for r in prev.get("res", []):
                        if r.get("k") != e.get("k"):
                            continue
                        lm, la = r.get("lm"), r.get("la")
                        dead = (va is not None and va >= 0 and ((lm is not None and lm >= 0 and lm < va) or
                                                                (la is not None and la >= 0 and la < va)))
                        dead = dead or (ttl is not None and ttl >= 0 and lm is not None and lm >= 0 and lm + ttl <= now)
                        dead = dead or (tti is not None and tti >= 0 and la is not None and la >= 0 and la + tti <= now)
                        if dead:
                            hit = True
                if e.get("snap"):
                    prev = e["snap"]
            if hit:
                return f
            continue
        for e in events[:upto + 1]:
            for m in e.get("mx") or []:
                if m.get("t") in tags:
                    return f
            if f.get("witness_snapshot") == "hidden_but_read_at_invalidation_reading":
                sn = e.get("snap") or {}
                va = sn.get("va", -1)
                if va is not None and va >= 0:
                    for r in sn.get("res", []):
                        if r.get("lm", 0) < va <= r.get("la", -1):
                            return f
    return None


def head_of(trace, max_events):
    """A copy of the first behaviours of a trace file holding at most max_events lines."""
    out = trace + ".head"
    n = 0
    with open(trace) as f, open(out, "w") as g:
        buf = []
        for line in f:
            if line.startswith('{"') and '"ev":"Config"' in line and buf:
                if n + len(buf) > max_events:
                    buf = []
                    break
                g.writelines(buf)
                n += len(buf)
                buf = []
            buf.append(line)
        if buf and n + len(buf) <= max_events:
            g.writelines(buf)
            n += len(buf)
    return out, n


def judge_trace(ctx, name, trace, beh_path, nkeys, layer_i, source, layer_budget=None, all_mismatch=False):
    """Runs the property's monitor (and Layer I) over a recorded trace; files violations.

    An open finding explains a rejected event only while the code still does what the model of
    the code as it is (Layer I with the finding's deviation switched on) does: a rejection at or
    after the event where the code left that model is a different violation and is reported.
    all_mismatch: every behaviour of this trace ends in an event that differs from the model's."""
    drift_at = {}
    if layer_i and layer_budget:
        # Layer I beside the code on as much of the trace as the budget allows (whole behaviours
        # from the front), the monitor on all of it; both in concurrent parts
        head, n = head_of(trace, layer_budget)
        total = sum(1 for _ in open(trace))
        if n >= total:
            os.remove(head)
        else:
            if n:
                lr = V.trace_check_par(ctx.wd, name + "_layerI", head, [], nkeys, layer_i=True)
                ctx.conform += lr["stats"]["conform"]
                for (bid, line) in lr["drift"]:
                    drift_at.setdefault(bid, line)
                    if len(ctx.drift) < 20:
                        ctx.drift.append({"source": source, "behaviour": bid, "line": line})
            os.remove(head)
            layer_i = False
    res = V.trace_check_par(ctx.wd, name, trace, [ctx.prop], nkeys, layer_i=layer_i)
    st = res["stats"]
    ctx.conform += st["conform"]
    ctx.events += st["events"]
    ctx.nontrivial += st["nt"].get(ctx.prop, 0)
    lines = None
    behs = None
    bad_bids = set()
    for (bid, line) in res["drift"]:
        drift_at.setdefault(bid, line)
    for (p, bid, line) in res["viol"]:
        if bid in bad_bids:
            continue
        bad_bids.add(bid)
        if len(ctx.violations) >= 8 and not V.load_findings():
            continue
        if lines is None:
            lines = V.read_lines(trace)
            behs = {b.get("id", i): b for i, b in enumerate(V.read_lines(beh_path))}
        evs, idx = V.behaviour_events(lines, line)
        b = behs.get(bid, {})
        f = witness_of(ctx, evs, idx)
        left_model = (bid in drift_at and drift_at[bid] <= line) or (all_mismatch and idx >= len(evs) - 1)
        if f is not None and not left_model:
            ctx.known_hits[f["id"]] = ctx.known_hits.get(f["id"], 0) + 1
            continue
        if f is not None:
            ctx.notes.append("behaviour %d of %s: the witness of %s is present, but the code had left the model of "
                             "that finding when the monitor rejected the event: reported" % (bid, source, f["id"]))
        path = V.write_replay(p, b.get("cfg"), b.get("ops"), evs, idx, source)
        ctx.violation(path, "event %d of behaviour %d rejected by monitor %s" % (idx, bid, p))
    for (bid, line) in res["drift"]:
        if bid not in bad_bids and len(ctx.drift) < 20:
            ctx.drift.append({"source": source, "behaviour": bid, "line": line})
    ctx.traces_ok += st["behaviours"] - len(bad_bids)
    return res


def stage_r(ctx, runs):
    for i, c in enumerate(runs):
        name = "r%d_%s" % (i, c["slice"])
        cfg = os.path.join(ctx.wd, name + ".cfg")
        if c["module"] == "MC_Sync.tla":
            # the model of the code as it is (open findings on), real constants
            V.write_cfg(cfg, constants=constants_smc(c, [], emit=True, real=True), constraints=["Depth"], view="View")
        else:
            V.write_cfg(cfg, constants=constants_mc(c, [], emit=True, depth=c["depth"], period=1280),
                        constraints=["Depth"], view="View")
        rc, outp, wall = V.run_tlc(ctx.wd, c["module"], cfg, workers=1, timeout=2400, out=name + ".out")
        r = V.parse_mc(outp)
        if not r["ok"]:
            raise ToolError("emission run %s failed: %s" % (name, r["violated"] or r["error"]))
        beh = os.path.join(ctx.wd, name + ".beh.ndjson")
        n = parse_edges(outp, beh)
        os.remove(outp)
        if c["module"] == "MC_Sync.tla":
            # which maintenance steps of Layer I the emitted behaviours exercise (a step that never
            # occurs was never compared with the code)
            with open(beh) as f:
                for line in f:
                    for m in re.finditer(r'"t":"([a-z.]+)"', line[line.rfind('"last"'):]):
                        ctx.model_tags[m.group(1)] = ctx.model_tags.get(m.group(1), 0) + 1
        trace = os.path.join(ctx.wd, name + ".trace.ndjson")
        summary, crashes = V.replay_file(beh, trace, only_bad=True)
        nbad = len(summary["mismatches"]) + len(summary["panics"]) + len(crashes)
        log("[replay] %-24s %6d behaviours (one per edge of %d states) %7d events  mismatching=%d  %.1fs" % (
            name, n, r["distinct"], summary["events"], nbad, wall))
        ctx.replayed += n
        ctx.replay_events += summary["events"]
        ctx.states += r["distinct"]
        ctx.transitions += r["generated"]
        if len(ctx.samples) < 3:
            with open(beh) as f:
                lines = f.readlines()
            if lines:
                b = json.loads(lines[min(len(lines) - 1, 997 * (i + 1) % len(lines))])
                ctx.samples.append({"kind": "edge behaviour replayed on the real cache", "cfg": b["cfg"],
                                    "ops": b["ops"]})
        if nbad:
            # the real cache did not do what Layer I does on these: the monitors decide
            nviol = len(ctx.violations)
            judge_trace(ctx, name + "_bad", trace, beh, c["nkeys"], False, "replay:" + name, all_mismatch=True)
            for m in summary["mismatches"][:20]:
                ctx.drift.append({"source": name, "behaviour": m.get("id"), "what": m.get("what")})
            ctx.traces_ok += n - nbad
            if len(ctx.violations) == nviol:
                # drift without a verdict yet: the code is in a state the model does not know.
                # Explore onwards from there, with the monitor as the only judge.
                extend_drifting(ctx, name, beh, [m.get("line") for m in summary["mismatches"] if "line" in m], c)
        else:
            # identical to the model's own events, which TLC judged with the monitor in stage mc
            ctx.traces_ok += n


def extend_drifting(ctx, name, beh, lines, c):
    """Random continuations of the behaviours on which the code left the model."""
    import random
    rnd = random.Random(ctx.seed * 7919 + len(lines))
    with open(beh) as f:
        all_b = f.readlines()
    picks = sorted(set(lines))
    if len(picks) > 80:
        picks = sorted(rnd.sample(picks, 80))
    ext = os.path.join(ctx.wd, name + ".ext.beh.ndjson")
    nk = c["nkeys"]
    n = 0
    with open(ext, "w") as f:
        for ln in picks:
            b = json.loads(all_b[ln])
            kind = b["cfg"]["kind"]
            has_exp = b["cfg"].get("ttl", -1) >= 0 or b["cfg"].get("tti", -1) >= 0
            vid = 50
            for j in range(20):
                ops = list(b["ops"])
                for _ in range(8):
                    r = rnd.random()
                    k = rnd.randint(1, nk)
                    if r < 0.22:
                        vid += 1
                        ops.append({"op": "Insert", "k": k, "v": vid, "w": rnd.choice(sorted(c["weights"]))})
                    elif r < 0.44:
                        ops.append({"op": "Get", "k": k})
                    elif r < 0.54:
                        ops.append({"op": "Contains", "k": k})
                    elif r < 0.62:
                        ops.append({"op": "Invalidate", "k": k})
                    elif r < 0.68:
                        ops.append({"op": "InvalidateAll"})
                    elif r < 0.8 and (has_exp or kind == "sync"):
                        # (invalidate_all of the concurrent cache works by clock readings)
                        ops.append({"op": "Advance", "d": 1})
                    elif r < 0.9:
                        ops.append({"op": "Sync"} if kind == "sync" else {"op": "Iter"})
                    else:
                        ops.append({"op": "Iter"})
                # finish with a look at every key
                if kind == "sync":
                    ops.append({"op": "Sync"})
                ops += [{"op": "Get", "k": k2} for k2 in range(1, nk + 1)]
                f.write(json.dumps({"id": n, "cfg": b["cfg"], "ops": ops}) + "\n")
                n += 1
    trace = os.path.join(ctx.wd, name + ".ext.trace.ndjson")
    V.replay_file(ext, trace)
    log("[extend] %-24s %d continuations of %d drifting behaviours" % (name, n, len(picks)))
    judge_trace(ctx, name + "_ext", trace, ext, nk, False, "continuations of drifting replays:" + name)
    os.remove(trace)


def stage_v(ctx, runs):
    for i, (profile, count, length) in enumerate(runs):
        name = "v%d_%s" % (i, profile)
        beh = os.path.join(ctx.wd, name + ".beh.ndjson")
        V.gen_behaviours(profile, ctx.seed * 1000 + i, count, length, beh)
        trace = os.path.join(ctx.wd, name + ".trace.ndjson")
        summary, crashes = V.replay_file(beh, trace)
        nkeys = json.loads(open(beh).readline())["cfg"]["nkeys"]
        judge_trace(ctx, name, trace, beh, nkeys, True, "random:%s seed=%d" % (profile, ctx.seed * 1000 + i),
                    layer_budget=(40000 if ctx.tier == "quick" else 400000) if profile.startswith("sync") else None)

        if len(ctx.samples) < 5:
            b = json.loads(open(beh).readline())
            ctx.samples.append({"kind": "random history (%s)" % profile, "cfg": b["cfg"], "ops": b["ops"][:25]})
        os.remove(trace)


def sketch_trace_check(ctx, name, trace, dev=()):
    cfg = os.path.join(ctx.wd, name + ".cfg")
    V.write_cfg(cfg, constants={"SkDev": set(dev)}, postcondition="Consumed")
    rc, outp, wall = V.run_tlc(ctx.wd, "TraceSketch.tla", cfg, workers=1, timeout=900, out=name + ".out",
                               depth_first=True, xmx="6g", env_extra={"TRACE": trace})
    txt = open(outp, errors="replace").read()
    m = re.search(r'<<"STATS", "(.*)">>', txt)
    if rc == -9 or not m or "No error has been found" not in txt:
        e = re.search(r"Error: (.*)", txt)
        raise ToolError("sketch trace validation failed (%s): %s" % (outp, e.group(1) if e else "no STATS"))
    st = json.loads(m.group(1).replace('\\"', '"'))
    viol = [(x.group(1), int(x.group(2)), int(x.group(3)))
            for x in re.finditer(r'<<"VIOL", "(C\d+)", (-?\d+), (\d+)>>', txt)]
    drift = [(int(x.group(1)), int(x.group(2))) for x in re.finditer(r'<<"DRIFT", (-?\d+), (\d+)>>', txt)]
    log("[trace] %-24s %6d events %4d behaviours  viol=%d drift=%d  %.1fs" % (
        name, st["events"], st["behaviours"], len(viol), len(drift), wall))
    return st, viol, drift


def stage_sketch(ctx):
    """The popularity estimator on its own: Sketch.tla x monitor, edge replay and random streams
    through the facade."""
    quick = ctx.tier == "quick"
    fams = ["a0", "a1", "b2"] + ([] if quick else ["c3"])
    for fam in fams + (["c3"] if quick else []):
        depth = 0 if (fam != "c3" or not quick) else 9
        consts = {"SkDev": set(), "Family": fam, "Emit": False, "MaxDepth": depth}
        r = V.model_check(ctx.wd, "sk_" + fam, "MC_Sketch.tla", consts, ["Ok", "NoCrash"],
                          constraints=["Stop"] + (["Depth"] if depth else []), view="View" if depth else None,
                          workers=8, timeout=900)
        ctx.mc.append({k: r[k] for k in ("name", "distinct", "generated", "ok", "wall_s", "timeout")})
        ctx.states += r["distinct"]
        ctx.transitions += r["generated"]
        if not r["ok"] and not r["timeout"]:
            ctx.model_failures.append(("sk_" + fam, r["violated"] or r["error"], r["out"]))
    # mode R: one stream per edge, hashes concretised by search through the facade
    for fam, depth in [("a1", 12), ("b2", 8 if quick else 11), ("c3", 5 if quick else 7)]:
        name = "skr_" + fam
        cfg = os.path.join(ctx.wd, name + ".cfg")
        V.write_cfg(cfg, constants={"SkDev": set(), "Family": fam, "Emit": True, "MaxDepth": depth},
                    constraints=["Depth"], view="View")
        rc, outp, wall = V.run_tlc(ctx.wd, "MC_Sketch.tla", cfg, workers=1, timeout=900, out=name + ".out")
        r = V.parse_mc(outp)
        if not r["ok"]:
            raise ToolError("sketch emission %s failed: %s" % (name, r["violated"] or r["error"]))
        beh = os.path.join(ctx.wd, name + ".beh.ndjson")
        n = parse_edges(outp, beh)
        os.remove(outp)
        trace = os.path.join(ctx.wd, name + ".trace.ndjson")
        rr = V.harness(["sketch", "replay", beh, trace])
        if rr.returncode != 0:
            raise ToolError("sketch replay failed: " + rr.stderr[-1500:])
        summ = json.loads(rr.stdout.strip().splitlines()[-1])
        log("[replay] %-24s %6d streams (one per edge of %d states) %7d increments  mismatching=%d" % (
            name, n, r["distinct"], summ["events"], len(summ["mismatches"])))
        ctx.replayed += n
        ctx.replay_events += summ["events"]
        ctx.traces_ok += n - len(summ["mismatches"])
        if summ["mismatches"]:
            st, viol, drift = sketch_trace_check(ctx, name + "_bad", trace)
            sketch_verdict(ctx, name, trace, viol, drift)
    # mode V: random skewed streams at capacities 0 .. 2^20
    name = "skv"
    trace = os.path.join(ctx.wd, name + ".trace.ndjson")
    count, length = (36, 300) if quick else (240, 1500)
    rr = V.harness(["sketch", "random", str(ctx.seed), str(count), str(length), trace])
    if rr.returncode != 0:
        raise ToolError("sketch driver failed: " + rr.stderr[-1500:])
    st, viol, drift = sketch_trace_check(ctx, name, trace)
    ctx.events += st["events"]
    ctx.nontrivial += st["nt"]
    ctx.conform += st["conform"]
    ctx.traces_ok += st["behaviours"] - len({b for (_, b, _) in viol})
    sketch_verdict(ctx, name, trace, viol, drift)
    with open(trace) as f:
        head = [json.loads(next(f)) for _ in range(4)]
    ctx.samples.append({"kind": "estimator stream through the facade", "events": head})


def generic_trace_check(ctx, module, name, trace, constants):
    cfg = os.path.join(ctx.wd, name + ".cfg")
    V.write_cfg(cfg, constants=constants, postcondition="Consumed")
    rc, outp, wall = V.run_tlc(ctx.wd, module, cfg, workers=1, timeout=900, out=name + ".out",
                               depth_first=True, xmx="6g", env_extra={"TRACE": trace})
    txt = open(outp, errors="replace").read()
    m = re.search(r'<<"STATS", "(.*)">>', txt)
    if rc == -9 or not m or "No error has been found" not in txt:
        e = re.search(r"Error: (.*)", txt)
        raise ToolError("trace validation failed (%s): %s" % (outp, e.group(1) if e else "no STATS"))
    st = json.loads(m.group(1).replace('\\"', '"'))
    viol = [(x.group(1), int(x.group(2)), int(x.group(3)))
            for x in re.finditer(r'<<"VIOL", "(C\d+)", (-?\d+), (\d+)>>', txt)]
    drift = [(int(x.group(1)), int(x.group(2))) for x in re.finditer(r'<<"DRIFT", (-?\d+), (\d+)>>', txt)]
    log("[trace] %-24s %6d events %4d behaviours  viol=%d drift=%d  %.1fs" % (
        name, st["events"], st["behaviours"], len(viol), len(drift), wall))
    return st, viol, drift


def stage_deque(ctx):
    """The intrusive list on its own: Deque.tla (well-formedness, refinement of a sequence), one
    behaviour per edge through the facade with a structural walk of the real heap, random ops."""
    quick = ctx.tier == "quick"
    ma, ml = (5, 4) if quick else (7, 5)
    r = V.model_check(ctx.wd, "dq_mc", "MC_Deque.tla", {"MaxAlloc": ma, "MaxLive": ml, "Emit": False, "MaxDepth": 0},
                      ["WellFormed", "Refines"], workers=8, timeout=1200)
    ctx.mc.append({k: r[k] for k in ("name", "distinct", "generated", "ok", "wall_s", "timeout")})
    ctx.states += r["distinct"]
    ctx.transitions += r["generated"]
    if not r["ok"] and not r["timeout"]:
        ctx.model_failures.append(("dq_mc", r["violated"] or r["error"], r["out"]))
    name = "dq_r"
    cfg = os.path.join(ctx.wd, name + ".cfg")
    V.write_cfg(cfg, constants={"MaxAlloc": 5 if quick else 6, "MaxLive": 4, "Emit": True, "MaxDepth": 0}, view="View")
    rc, outp, wall = V.run_tlc(ctx.wd, "MC_Deque.tla", cfg, workers=1, timeout=900, out=name + ".out")
    rr = V.parse_mc(outp)
    if not rr["ok"]:
        raise ToolError("deque emission failed: %s" % (rr["violated"] or rr["error"]))
    beh = os.path.join(ctx.wd, name + ".beh.ndjson")
    n = parse_edges(outp, beh)
    os.remove(outp)
    trace = os.path.join(ctx.wd, name + ".trace.ndjson")
    hr = V.harness(["deque", "replay", beh, trace])
    if hr.returncode != 0:
        # a crash of the list code itself
        with open(trace, "a") as f:
            f.write(json.dumps({"ev": "Crash", "rc": hr.returncode}) + "\n")
        summ = {"events": 0, "mismatches": [{"crash": hr.returncode}]}
    else:
        summ = json.loads(hr.stdout.strip().splitlines()[-1])
    log("[replay] %-24s %6d behaviours (one per edge of %d states) %7d ops  mismatching=%d" % (
        name, n, rr["distinct"], summ["events"], len(summ["mismatches"])))
    ctx.replayed += n
    ctx.replay_events += summ["events"]
    ctx.traces_ok += n - len(summ["mismatches"])
    if summ["mismatches"]:
        st, viol, drift = generic_trace_check(ctx, "TraceDeque.tla", name + "_bad", trace, {"MaxAlloc": 8})
        deque_verdict(ctx, name, trace, viol, drift)
    name = "dq_v"
    trace = os.path.join(ctx.wd, name + ".trace.ndjson")
    count, length = (60, 80) if quick else (600, 300)
    hr = V.harness(["deque", "random", str(ctx.seed), str(count), str(length), "40", trace])
    if hr.returncode != 0:
        with open(trace, "a") as f:
            f.write(json.dumps({"ev": "Crash", "rc": hr.returncode}) + "\n")
    st, viol, drift = generic_trace_check(ctx, "TraceDeque.tla", name, trace, {"MaxAlloc": 40})
    ctx.events += st["events"]
    ctx.nontrivial += st["nt"]
    ctx.conform += st["conform"]
    ctx.traces_ok += st["behaviours"] - len({b for (_, b, _) in viol})
    deque_verdict(ctx, name, trace, viol, drift)


def deque_verdict(ctx, name, trace, viol, drift):
    lines = None
    seen = set()
    for (p, bid, line) in viol:
        if p != ctx.prop or bid in seen:
            continue
        seen.add(bid)
        if lines is None:
            lines = V.read_lines(trace)
        i = line - 1
        start = i
        while start > 0 and lines[start].get("ev") != "DqConfig":
            start -= 1
        evs = lines[start:i + 1]
        path = V.write_replay(p, {"kind": "deque"}, [{k: e[k] for k in ("op", "n", "e") if k in e} for e in evs[1:]],
                              evs, len(evs) - 1, "deque:" + name)
        ctx.violation(path, "list operation %d of behaviour %d rejected (%s)" % (len(evs) - 1, bid, p))
    for (bid, line) in drift[:10]:
        ctx.drift.append({"source": name, "behaviour": bid, "line": line})


def sketch_verdict(ctx, name, trace, viol, drift):
    lines = None
    seen = set()
    for (p, bid, line) in viol:
        if p != ctx.prop or bid in seen:
            continue
        seen.add(bid)
        if lines is None:
            lines = V.read_lines(trace)
        evs, idx = behaviour_sk(lines, line)
        path = V.write_replay(p, {"kind": "sketch", "config": evs[0]}, [e.get("g") for e in evs[1:]], evs, idx,
                              "sketch:" + name)
        ctx.violation(path, "estimator event %d of stream %d rejected by monitor %s" % (idx, bid, p))
    for (bid, line) in drift[:10]:
        ctx.drift.append({"source": name, "behaviour": bid, "line": line})


def behaviour_sk(lines, line_no):
    i = line_no - 1
    start = i
    while start > 0 and lines[start].get("ev") != "SkConfig":
        start -= 1
    end = i + 1
    while end < len(lines) and lines[end].get("ev") != "SkConfig":
        end += 1
    return lines[start:end], i - start


def stage_findings(ctx):
    """Open findings of this property: run the recorded history; report it while it still fails."""
    for f in V.load_findings():
        if f.get("status") != "open" or "history" not in f:
            continue
        if ctx.prop not in f.get("properties", []):
            continue
        name = "finding_" + f["id"]
        beh = os.path.join(ctx.wd, name + ".beh.ndjson")
        with open(beh, "w") as g:
            g.write(json.dumps({"id": 0, "cfg": f["history"]["cfg"], "ops": f["history"]["ops"]}) + "\n")
        trace = os.path.join(ctx.wd, name + ".trace.ndjson")
        V.replay_file(beh, trace)
        res = V.trace_check(ctx.wd, name, trace, [ctx.prop], f["history"]["cfg"]["nkeys"], layer_i=False)
        if res["viol"]:
            ctx.known_hits[f["id"]] = ctx.known_hits.get(f["id"], 0) + 1
            ctx.known_history_fails.add(f["id"])


def finish(ctx, level_note_extra=""):
    wall = time.time() - ctx.t0
    coverage = {
        "states": ctx.states, "transitions": ctx.transitions,
        "traces_validated_against_impl": ctx.traces_ok,
        "samples": ctx.samples or [{"note": "no sample recorded"}],
        "evaluations": ctx.events + ctx.replay_events,
        "distinct_nontrivial": ctx.nontrivial + ctx.replayed,
        "rule": "model checking: distinct states / generated transitions of Layer I x monitor as reported by TLC; "
                "mode R: one behaviour per edge of the bounded Layer I state graph executed on the real cache and "
                "compared event by event (each edge is a distinct behaviour); mode V: seeded random histories "
                "executed on the real cache and judged by the TLA+ monitor with TLC; an event is non-trivial when "
                "the monitor's antecedent held (NT_<id> in spec/Monitors.tla), counted by TLC on this run",
        "exhaustive": all(m["ok"] for m in ctx.mc) if ctx.mc else False,
        "model_checking_runs": ctx.mc,
        "behaviours_replayed": ctx.replayed,
        "events_judged_by_monitor": ctx.events,
        "events_conforming_to_layer_I": ctx.conform,
        "drift_events": ctx.drift,
        "model_transfer": not ctx.drift,
        "known_findings": ctx.known,
        "notes": ctx.notes,
    }
    if ctx.model_tags:
        coverage["layer_I_maintenance_steps_replayed"] = dict(sorted(ctx.model_tags.items()))
    V.write_evidence(ctx.prop, ctx.tier, ctx.seed, "model_checking", coverage,
                     ["TLC and the CommunityModules JSON reader", "the read-only snapshot hooks report the truth",
                      "the mock clock stands in for Instant::now",
                      "exhaustiveness is within the stated small constants"],
                     wall, len(ctx.violations))
    for d in ctx.drift[:5]:
        log("DRIFT layer=I at=%s" % json.dumps(d))
    for f in V.load_findings():
        if f.get("status") == "open" and f["id"] in ctx.known_hits:
            ctx.known.append({"id": f["id"], "hits": ctx.known_hits[f["id"]],
                              "recorded_history_still_fails": f["id"] in ctx.known_history_fails})
            print("KNOWN-FINDING: property=%s %s: %s (rejections attributed by witness %s: %d)" % (
                ctx.prop, f["id"], f["what"], "/".join(f.get("witness_tags", [f.get("witness_snapshot", f.get("witness_pair", ""))])),
                ctx.known_hits[f["id"]]))
    if ctx.model_failures and not ctx.violations:
        for (name, what, out) in ctx.model_failures:
            log("MODEL-LEVEL FAILURE in %s: %s (see %s)" % (name, what, out))
        return 2
    if ctx.violations:
        for path, what in ctx.violations[:10]:
            print("VIOLATION property=%s replay=%s" % (ctx.prop, path))
            log("  " + what)
        return 1
    print("OK property=%s tier=%s states=%d traces=%d events=%d wall=%.0fs" % (
        ctx.prop, ctx.tier, ctx.states, ctx.traces_ok, ctx.events + ctx.replay_events, wall))
    shutil.rmtree(ctx.wd, ignore_errors=True)
    return 0


def pair_witness(evs, upto):
    """F13: on the single-threaded cache an extra contains_key found the cache above its capacity
    (after an in-place update grew an entry) and restored the bound."""
    for f in V.load_findings():
        if f.get("status") != "open" or f.get("witness_pair") != "extra_contains_restored_capacity":
            continue
        cfg = evs[0]
        if cfg.get("kind") != "unsync" or cfg.get("cap", -1) < 0:
            return None
        cap = cfg["cap"]
        for i in range(2, min(upto, len(evs) - 1) + 1):
            e = evs[i]
            if e.get("extra") and e.get("ev") == "Contains":
                before = sum(r["w"] for r in (evs[i - 1].get("snap") or {}).get("res", []))
                after = sum(r["w"] for r in (e.get("snap") or {}).get("res", []))
                if before > cap >= after:
                    return f
    return None


def run_c15(ctx, plan):
    """Purity of contains_key / iter: an action property on Layer I, and metamorphic pairs on the code."""
    import random
    stage_mc(ctx, plan.get("mc", []))
    # the direct clause (timers, recency, estimator) judged on ordinary histories
    stage_v(ctx, plan.get("v", []))
    quick = ctx.tier == "quick"
    profiles = [("unsync-small", 150, 40), ("unsync-mid", 40, 150), ("sync-small", 150, 40), ("sync-mid", 40, 150),
                ("sync-eager", 40, 60)]
    if not quick:
        profiles = [(p, c * 12, l * 2) for (p, c, l) in profiles]
    rnd = random.Random(ctx.seed)
    for i, (profile, count, length) in enumerate(profiles):
        name = "p%d_%s" % (i, profile)
        beh_a = os.path.join(ctx.wd, name + ".a.beh.ndjson")
        beh_b = os.path.join(ctx.wd, name + ".b.beh.ndjson")
        V.gen_behaviours(profile, ctx.seed * 1000 + 50 + i, count, length, beh_a)
        behs = V.read_lines(beh_a)
        nextra = 0
        with open(beh_a, "w") as fa, open(beh_b, "w") as fb:
            for b in behs:
                b["cfg"]["lean"] = True
                nk = b["cfg"]["nkeys"]
                # both histories end with the same full observation
                tail = [{"op": "Contains", "k": k} for k in range(1, nk + 1)] + [{"op": "Iter"}]
                ops_a = [o for o in b["ops"]] + tail
                ops_b = []
                for o in b["ops"]:
                    while rnd.random() < 0.3:
                        if rnd.random() < 0.7:
                            ops_b.append({"op": "Contains", "k": rnd.randint(1, nk), "extra": True})
                        else:
                            ops_b.append({"op": "Iter", "extra": True})
                        nextra += 1
                    ops_b.append(o)
                ops_b += tail
                fa.write(json.dumps({"id": b["id"], "cfg": b["cfg"], "ops": ops_a}) + "\n")
                fb.write(json.dumps({"id": b["id"], "cfg": b["cfg"], "ops": ops_b}) + "\n")
        tr_a = os.path.join(ctx.wd, name + ".a.trace.ndjson")
        tr_b = os.path.join(ctx.wd, name + ".b.trace.ndjson")
        V.replay_file(beh_a, tr_a)
        V.replay_file(beh_b, tr_b)
        cfg = os.path.join(ctx.wd, name + ".cfg")
        V.write_cfg(cfg, constants={}, postcondition="Consumed")
        rc, outp, wall = V.run_tlc(ctx.wd, "TracePair.tla", cfg, workers=1, timeout=900, out=name + ".out",
                                   depth_first=True, xmx="6g", env_extra={"TRACE_A": tr_a, "TRACE_B": tr_b})
        txt = open(outp, errors="replace").read()
        m = re.search(r'<<"STATS", "(.*)">>', txt)
        if rc == -9 or not m:
            e = re.search(r"Error: (.*)", txt)
            raise ToolError("pair validation failed (%s): %s" % (outp, e.group(1) if e else "no STATS"))
        st = json.loads(m.group(1).replace('\\"', '"'))
        viol = [(int(x.group(1)), int(x.group(2))) for x in re.finditer(r'<<"VIOL", "C15", (-?\d+), (\d+)>>', txt)]
        log("[pairs] %-24s %6d events %4d pairs, %d extra calls skipped  viol=%d  %.1fs" % (
            name, st["events"], st["behaviours"], st["extras"], len(viol), wall))
        ctx.events += st["events"] + st["extras"]
        ctx.nontrivial += st["extras"]
        bad = set()
        bmap = {b["id"]: b for b in V.read_lines(beh_b)}
        lines = None
        for (bid, line) in viol:
            if bid in bad:
                continue
            bad.add(bid)
            if len(ctx.violations) >= 8:
                continue
            if lines is None:
                lines = V.read_lines(tr_b)
            evs, idx = V.behaviour_events(lines, line)
            b = bmap.get(bid, {})
            f13 = pair_witness(evs, idx)
            if f13 is not None:
                ctx.known_hits[f13["id"]] = ctx.known_hits.get(f13["id"], 0) + 1
                continue
            path = V.write_replay("C15", b.get("cfg"), b.get("ops"), evs, idx, "pair:" + name,
                                  extra={"note": "ops flagged extra are the inserted observations; the history without them is the other half of the pair"})
            ctx.violation(path, "pair %d: event %d of the history with extra observations disagrees" % (bid, idx))
        ctx.traces_ok += st["behaviours"] - len(bad)
        if len(ctx.samples) < 4:
            b = V.read_lines(beh_b)[0]
            ctx.samples.append({"kind": "history with extra contains_key/iter calls (%s)" % profile, "cfg": b["cfg"],
                                "ops": b["ops"][:30]})
        for f in (tr_a, tr_b):
            os.remove(f)
    # the recorded history of an open finding of this property, while it still fails
    for f in V.load_findings():
        if f.get("status") == "open" and "C15" in f.get("properties", []) and "history" in f:
            hb = os.path.join(ctx.wd, "finding.b.beh.ndjson")
            ha = os.path.join(ctx.wd, "finding.a.beh.ndjson")
            ops_b = f["history"]["ops"]
            ops_a = [o for o in ops_b if not o.get("extra")]
            with open(ha, "w") as g:
                g.write(json.dumps({"id": 0, "cfg": f["history"]["cfg"], "ops": ops_a}) + "\n")
            with open(hb, "w") as g:
                g.write(json.dumps({"id": 0, "cfg": f["history"]["cfg"], "ops": ops_b}) + "\n")
            ta, tb = ha + ".trace", hb + ".trace"
            V.replay_file(ha, ta)
            V.replay_file(hb, tb)
            cfg = os.path.join(ctx.wd, "finding.cfg")
            V.write_cfg(cfg, constants={}, postcondition="Consumed")
            rc, outp, wall = V.run_tlc(ctx.wd, "TracePair.tla", cfg, workers=1, timeout=300, out="finding.out",
                                       depth_first=True, env_extra={"TRACE_A": ta, "TRACE_B": tb})
            if '<<"VIOL", "C15"' in open(outp, errors="replace").read():
                ctx.known_hits[f["id"]] = ctx.known_hits.get(f["id"], 0) + 1
                ctx.known_history_fails.add(f["id"])


# ---------------------------------------------------------------------------
# the concurrent cache under several threads (modes S and F)

CONC_PROGS = {"ii": 2, "ii2": 2, "ixi": 2, "upd": 2, "rej": 2, "syncs": 2, "ia": 2, "wgt": 2, "xget": 2,
              "ttl": 2, "tti": 2, "three": 3, "three2": 3, "burst": 2, "ttix": 2, "grow": 2, "iax": 2, "farw": 2, "farx": 2, "iasy": 2, "xaxa": 2, "putback": 2, "syncflag": 2, "deadrm": 2, "ttihk": 2, "ttlhk": 2,
              "all_unit": 2, "all_wgt": 2, "all_exp": 2}
CONC_QUICK = ["ii", "upd", "rej", "ixi", "wgt", "xget", "burst", "ttix", "grow", "iax", "farx", "iasy", "xaxa", "putback", "deadrm"]
CONC_LIGHT = ["ii", "rej", "syncs", "grow", "ixi", "deadrm"]
# programs with an explicit sync() beside another thread's maintenance, replayed once more on a
# harness built with the library's debug assertions off
CONC_NODEBUG = ["syncs", "rej", "grow"]
# programs replayed once more with scaled queues (flush point, read slots, write slots): small programs
# then reach a full queue, the writers' retry loop and maintenance triggered by the flush point
SCALED = (2, 3, 2)
CONC_SCALED = ["burst", "ii2", "three2", "syncflag"]
# C05 / C06 under interleavings: the programs with expiry, and two that need scaled queues
CONC_EXP = ["ttl", "tti", "ttix", "farx"]
CONC_EXP_SCALED = ["ttihk", "ttlhk"]
FINE_PROGS = ["putback", "rej", "upd", "wgt", "farx", "deadrm", "ixi"]
# "all" slices: the share of the programs whose schedules are emitted and replayed (1 / m), quick / thorough
ALL_PICK = {"all_unit": (24, 8), "all_wgt": (60, 20), "all_exp": (60, 20)}


def conc_constants(prog, emit, real, dev, pick=(0, 0)):
    k = {"NKeys": 2, "MaxInfo": 8, "MaxRepeats": 4, "Dev": set(dev), "Threads": CONC_PROGS[prog], "Prog": prog,
         "Emit": emit, "PickM": pick[0], "PickR": pick[1]}
    if real == "scaled":
        # the queues as small as in model checking, everything else as in the code: the real cache is
        # run with the same queue sizes through the scaled-queues hook
        k.update({"RLog": SCALED[1], "WLog": SCALED[2], "Flush": SCALED[0], "SBatch": 500, "Period": 1280})
    elif real:
        k.update({"RLog": 384, "WLog": 384, "Flush": 64, "SBatch": 500, "Period": 1280})
    else:
        k.update({"RLog": 3, "WLog": 2, "Flush": 2, "SBatch": 6, "Period": 6})
    return k


def conc_trace_check(ctx, name, trace, props, threads=3):
    consts = {"NKeys": 2, "MaxInfo": 8, "RLog": 384, "WLog": 384, "Flush": 64, "MaxRepeats": 4, "SBatch": 500,
              "Period": 1280, "Dev": set(), "Threads": threads, "CheckProps": set(props)}
    return generic_trace_check(ctx, "TraceConc.tla", name, trace, consts)


def conc_verdict(ctx, name, trace, beh, viol, left_model=()):
    """left_model: the runs in which the code did not do what the model of the code as it is (open
    findings included) does; an open finding explains a rejection only in the other runs."""
    lines = None
    seen = set()
    behs = None
    for (p, bid, line) in viol:
        if p != ctx.prop or bid in seen:
            continue
        seen.add(bid)
        if len(ctx.violations) >= 8 and not V.load_findings():
            continue
        if lines is None:
            lines = V.read_lines(trace)
            behs = {b.get("id", i): b for i, b in enumerate(V.read_lines(beh))} if beh else {}
        evs, idx = V.behaviour_events(lines, line)
        b = behs.get(bid, {})
        # an open finding whose witness the run contains (on these traces only the snapshot pattern of
        # F7 can occur: there are no maintenance events and no sequential call events)
        f = witness_of(ctx, evs, idx)
        if f is not None and ctx.prop == "C10":
            # F7 leaves the counters equal to what is physically held; only iteration disagrees
            # (the hidden entry is not yielded): any other disagreement is reported
            sn = evs[idx].get("snap") or {}
            res = sn.get("res", [])
            if not (sn.get("ec") == len(res) and sn.get("ws") == sum(r.get("tw", 0) for r in res)):
                f = None
        if f is not None and bid not in left_model:
            ctx.known_hits[f["id"]] = ctx.known_hits.get(f["id"], 0) + 1
            continue
        if len(ctx.violations) >= 8:
            continue
        path = V.write_replay(p, b.get("cfg", evs[0]), {"progs": b.get("progs"), "sched": b.get("sched"),
                                                        "seed": b.get("seed")},
                              evs, idx, "concurrent:" + name,
                              extra={"kind": "schedule", "events": [V.slim_event(e) for e in evs[:idx + 1]][-40:]})
        ctx.violation(path, "event %d (%s) of run %d rejected by monitor %s" % (idx, evs[idx].get("ev"), bid, p))
    return seen


def stage_conc_mc(ctx, progs):
    for prog in progs:
        name = "cmc_" + prog
        if prog.startswith("all_"):
            # every program of two threads with one or two operations each (10^3 programs, 10^5-10^6
            # states): safety only, the liveness property stays with the catalogue
            r = V.model_check(ctx.wd, name, "MC_Conc.tla", conc_constants(prog, False, False, ()),
                              ["Ok", "NoCrash", "NoDeadlock"], workers=12, timeout=1800)
        else:
            r = V.model_check(ctx.wd, name, "MC_Conc.tla", conc_constants(prog, False, False, ()),
                              ["Ok", "NoCrash", "NoDeadlock"], spec="FairSpec", properties=["Terminates"],
                              workers=10, timeout=1800)
        ctx.mc.append({k: r[k] for k in ("name", "distinct", "generated", "ok", "wall_s", "timeout")})
        ctx.states += r["distinct"]
        ctx.transitions += r["generated"]
        if r["timeout"]:
            ctx.notes.append("%s hit its time limit (not exhaustive)" % name)
        elif not r["ok"]:
            ctx.model_failures.append((name, r["violated"] or r["error"], r["out"]))


def stage_conc_s(ctx, progs, max_per_prog, random_runs, scaled=False, pre=None):
    """TLC's interleavings forced on real threads; then seeded random schedules."""
    import random
    rnd = random.Random(ctx.seed)
    pre = pre or ("cq_" if scaled else "cs_")
    for prog in progs:
        name = pre + prog
        cfg = os.path.join(ctx.wd, name + ".cfg")
        pick = (0, 0)
        if prog in ALL_PICK:
            # a seeded share of the programs of an "all" slice (every edge of each of them)
            m = ALL_PICK[prog][0 if ctx.tier == "quick" else 1]
            pick = (m, ctx.seed % m)
        V.write_cfg(cfg, constants=conc_constants(prog, True, "scaled" if scaled else True, V.SDEV, pick), view="View")
        rc, outp, wall = V.run_tlc(ctx.wd, "MC_Conc.tla", cfg, workers=1, timeout=1800, out=name + ".out")
        r = V.parse_mc(outp)
        if not r["ok"]:
            raise ToolError("schedule emission %s failed: %s" % (name, r["violated"] or r["error"]))
        beh_all = os.path.join(ctx.wd, name + ".all.ndjson")
        n_all = parse_edges(outp, beh_all)
        os.remove(outp)
        beh = os.path.join(ctx.wd, name + ".beh.ndjson")
        with open(beh_all) as f:
            lines = f.readlines()
        if max_per_prog and len(lines) > max_per_prog:
            # first the schedules that end with a foreground map access made while another thread is
            # inside handle_upsert (m.w2 / m.w3: between its accesses to the map), then those made
            # while another thread is anywhere inside maintenance; then the longest schedules (they
            # determine most of the run); then a seeded sample of the rest
            def window(l):
                b = json.loads(l)
                if b.get("tag") not in ("ins.map", "inv.map", "invall", "get.map") or not b.get("sched"):
                    return 0
                others = [pc for u, pc in enumerate(b["last"]["pcs"]) if u + 1 != b["sched"][-1]]
                if any(pc in ("m.w2", "m.w3") for pc in others):
                    return 2
                return 1 if any(pc.startswith("m.") for pc in others) else 0
            w2 = [l for l in lines if window(l) == 2]
            w1 = [l for l in lines if window(l) == 1]
            rnd.shuffle(w2)
            rnd.shuffle(w1)
            keep = w2[:max_per_prog // 3]
            keep += w1[:max_per_prog // 2 - len(keep)]
            kept = set(keep)
            rest = [l for l in lines if l not in kept]
            rest.sort(key=lambda l: -len(l))
            nlong = (max_per_prog - len(keep)) // 2
            keep += rest[:nlong]
            keep += rnd.sample(rest[nlong:], min(len(rest) - nlong, max_per_prog - len(keep)))
        else:
            keep = lines
        if scaled:
            keep = [json.dumps(dict(json.loads(l), scaled=list(SCALED))) + "\n" for l in keep]
        with open(beh, "w") as f:
            f.writelines(keep)
        os.remove(beh_all)
        run_sched(ctx, name, beh, len(keep), "every edge of %d states (%d schedules)" % (r["distinct"], n_all))
        ctx.states += r["distinct"]
        ctx.transitions += r["generated"]
    if random_runs:
        # the same programs under seeded random schedules (no expectation from the model: monitors only)
        name = pre + "random"
        beh = os.path.join(ctx.wd, name + ".beh.ndjson")
        protos = []
        for prog in progs:
            with open(os.path.join(ctx.wd, "%s%s.beh.ndjson" % (pre, prog))) as f:
                protos.append(json.loads(f.readline()))
        with open(beh, "w") as f:
            for i in range(random_runs):
                b = dict(protos[i % len(protos)])
                b.pop("last", None)
                b["sched"] = []
                b["seed"] = ctx.seed * 100000 + i
                b["id"] = i
                # every other run in the fine-grained mode: a switch point before every map access,
                # also inside maintenance (the harness's key type parks the thread when it is hashed)
                b["fine"] = (i // len(protos)) % 2 == 1
                f.write(json.dumps(b) + "\n")
        run_sched(ctx, name, beh, random_runs, "seeded random schedules")
        if not scaled:
            # the programs in which maintenance reaches the map by key several times: seeded random
            # schedules in the fine-grained mode only
            name = pre + "fine"
            beh = os.path.join(ctx.wd, name + ".beh.ndjson")
            fine = [p for p in FINE_PROGS if p in progs]
            per = 120 if ctx.tier == "quick" else 3000
            n = 0
            with open(beh, "w") as f:
                for prog in fine:
                    with open(os.path.join(ctx.wd, "%s%s.beh.ndjson" % (pre, prog))) as g:
                        proto = json.loads(g.readline())
                    proto.pop("last", None)
                    for i in range(per):
                        b = dict(proto, sched=[], seed=ctx.seed * 1000003 + n, id=n, fine=True)
                        f.write(json.dumps(b) + "\n")
                        n += 1
            if n:
                run_sched(ctx, name, beh, n, "seeded random schedules with a switch point before every map access")


def run_sched(ctx, name, beh, n, what):
    trace = os.path.join(ctx.wd, name + ".trace.ndjson")
    if os.path.exists(trace):
        os.remove(trace)
    hr = V.harness(["sched", beh, trace], timeout=1800)
    if hr.returncode not in (0, 3):
        with open(trace, "a") as f:
            f.write(json.dumps({"ev": "Crash", "rc": hr.returncode}) + "\n")
        summ = {"events": 0, "steps": 0, "mismatches": [], "abandoned": 0, "hangs": 0, "crash": hr.returncode}
    else:
        summ = json.loads(hr.stdout.strip().splitlines()[-1])
    log("[sched] %-22s %6d runs on real threads, %s: %d steps, expectation mismatches=%d abandoned=%d hangs=%d" % (
        name, n, what, summ["steps"], len(summ["mismatches"]), summ["abandoned"], summ["hangs"]))
    for mm in summ["mismatches"][:10]:
        ctx.drift.append({"source": name, "behaviour": mm.get("id"), "what": mm.get("what")})
    props = [ctx.prop]
    st, viol, drift = conc_trace_check(ctx, name, trace, props)
    ctx.replayed += n
    ctx.events += st["events"]
    ctx.nontrivial += st["nt"].get(ctx.prop, 0)
    bad = conc_verdict(ctx, name, trace, beh, viol, left_model={mm.get("id") for mm in summ["mismatches"]})
    ctx.traces_ok += st["behaviours"] - len(bad)
    if len(ctx.samples) < 4:
        b = json.loads(open(beh).readline())
        ctx.samples.append({"kind": "program and schedule executed on real threads (%s)" % name,
                            "cfg": b["cfg"], "progs": b["progs"], "sched": b.get("sched")})
    os.remove(trace)


def stage_conc_f(ctx, runs, threads, ops):
    """Free-running threads: stamped invoke / return logs validated by the same monitors."""
    name = "cf_stress"
    trace = os.path.join(ctx.wd, name + ".trace.ndjson")
    hr = V.harness(["free", "stress", str(ctx.seed), str(runs), str(threads), str(ops), trace], timeout=1800)
    if hr.returncode not in (0, 3):
        with open(trace, "a") as f:
            f.write(json.dumps({"ev": "Crash", "rc": hr.returncode}) + "\n")
    st, viol, drift = conc_trace_check(ctx, name, trace, [ctx.prop], threads=threads)
    ctx.events += st["events"]
    ctx.nontrivial += st["nt"].get(ctx.prop, 0)
    bad = conc_verdict(ctx, name, trace, None, viol)
    ctx.traces_ok += st["behaviours"] - len(bad)
    os.remove(trace)


def stage_race(ctx, runs, attempts):
    """One write against a spinning reader on real threads, many times: the windows inside an
    operation that have no switch point."""
    name = "cf_race"
    trace = os.path.join(ctx.wd, name + ".trace.ndjson")
    hr = V.harness(["free", "race", str(ctx.seed), str(runs), str(attempts), trace], timeout=1800)
    if hr.returncode not in (0, 3):
        with open(trace, "a") as f:
            f.write(json.dumps({"ev": "Crash", "rc": hr.returncode}) + "\n")
    st, viol, drift = conc_trace_check(ctx, name, trace, [ctx.prop], threads=3)
    ctx.events += st["events"]
    ctx.nontrivial += st["nt"].get(ctx.prop, 0)
    bad = conc_verdict(ctx, name, trace, None, viol)
    ctx.traces_ok += st["behaviours"] - len(bad)
    log("[race] %d behaviours of %d attempts, %d events, %d judged" % (runs, attempts, st["events"], st["nt"].get(ctx.prop, 0)))
    os.remove(trace)


def stage_iter(ctx):
    """C16 beside concurrent writers: iterator threads walk the cache while writer threads update a
    fixed key set; every iteration must yield every key once with a value current during it."""
    name = "cf_iter"
    trace = os.path.join(ctx.wd, name + ".trace.ndjson")
    runs = 6 if ctx.tier == "quick" else 60
    hr = V.harness(["free", "iter", str(ctx.seed), str(runs), trace], timeout=1800)
    if hr.returncode != 0:
        with open(trace, "a") as f:
            f.write(json.dumps({"ev": "Crash", "rc": hr.returncode}) + "\n")
    consts = {"NKeys": 24, "MaxInfo": 30, "RLog": 384, "WLog": 384, "Flush": 64, "MaxRepeats": 4, "SBatch": 500,
              "Period": 1280, "Dev": set(), "Threads": 5, "CheckProps": {"C16"}}
    st, viol, drift = generic_trace_check(ctx, "TraceConc.tla", name, trace, consts)
    ctx.events += st["events"]
    ctx.nontrivial += st["nt"].get("C16", 0)
    bad = conc_verdict(ctx, name, trace, None, viol)
    ctx.traces_ok += st["behaviours"] - len(bad)
    with open(trace) as f:
        for l in f:
            if '"IterRun"' in l:
                e = json.loads(l)
                e["items"] = e["items"][:6]
                ctx.samples.append({"kind": "iteration beside writers (first items)", "event": e})
                break
    os.remove(trace)


def stage_burst(ctx, n):
    name = "cf_burst"
    trace = os.path.join(ctx.wd, name + ".trace.ndjson")
    hr = V.harness(["free", "burst", str(ctx.seed), str(n), trace], timeout=1800)
    if hr.returncode not in (0, 3):
        with open(trace, "a") as f:
            f.write(json.dumps({"ev": "Crash", "rc": hr.returncode}) + "\n")
    st, viol, drift = conc_trace_check(ctx, name, trace, [ctx.prop], threads=8)
    ctx.events += st["events"]
    ctx.nontrivial += st["nt"].get(ctx.prop, 0)
    bad = conc_verdict(ctx, name, trace, None, viol)
    ctx.traces_ok += st["behaviours"] - len(bad)
    with open(trace) as f:
        ctx.samples.append({"kind": "un-synced burst", "events": [json.loads(l) for l in f.readlines()[:4]]})
    if ctx.prop in ("C04", "C09"):
        # the exact overshoot: four inserting threads under the controller, the thread that runs
        # maintenance starved until the write channel is full; the map is counted at every step
        # (C09: every insert must still return once the starved maintenance run is let go)
        name = "cs_overshoot"
        beh = os.path.join(ctx.wd, name + ".beh.ndjson")
        with open(beh, "w") as f:
            for i in range(2 if ctx.tier == "quick" else 12):
                progs = [[{"op": "Insert", "k": t * 300 + j + 1, "v": (t + 1) * 100000 + j, "w": 1} for j in range(300)]
                         for t in range(4)]
                f.write(json.dumps({"id": i, "cfg": {"kind": "sync", "cap": 5 + i, "ttl": -1, "tti": -1, "weigher": False,
                                                     "hasher": "mix", "nkeys": 8, "lean": True},
                                    "progs": progs, "sched": [], "seed": ctx.seed * 31 + i,
                                    "policy": "starve_maint", "overshoot": True}) + "\n")
        trace2 = os.path.join(ctx.wd, name + ".trace.ndjson")
        hr = V.harness(["sched", beh, trace2], timeout=1800)
        if hr.returncode not in (0, 3):
            with open(trace2, "a") as f:
                f.write(json.dumps({"ev": "Crash", "rc": hr.returncode}) + "\n")
        st, viol, drift = conc_trace_check(ctx, name, trace2, [ctx.prop], threads=4)
        ctx.events += st["events"]
        ctx.nontrivial += st["nt"].get(ctx.prop, 0)
        bad = conc_verdict(ctx, name, trace2, beh, viol)
        ctx.traces_ok += st["behaviours"] - len(bad)
        with open(trace2) as f:
            ov = [json.loads(l) for l in f if '"Overshoot"' in l]
        if ctx.prop == "C04":
            ctx.samples.append({"kind": "exact overshoot under the controller", "events": ov[:3]})
    if ctx.prop == "C09":
        # one maintenance run is bounded whatever the other threads do: scaled queues (flush point 2,
        # 3 read slots, 4 write slots), four inserting threads, the thread inside maintenance gets one
        # step whenever all the others wait for room; the others may complete at most
        # (MAX_SYNC_REPEATS + 1) rounds x (queue lengths) + the queues + one each before it is out again
        name = "cs_feed"
        beh = os.path.join(ctx.wd, name + ".beh.ndjson")
        fl, rs, ws, nthreads = 2, 3, 4, 4
        budget = (4 + 1) * (rs + ws) + (rs + ws) + nthreads
        with open(beh, "w") as f:
            for i in range(3 if ctx.tier == "quick" else 20):
                progs = [[{"op": "Insert", "k": (t * 7 + j) % 6 + 1, "v": (t + 1) * 100000 + j, "w": 1} for j in range(120)]
                         for t in range(nthreads)]
                f.write(json.dumps({"id": i, "cfg": {"kind": "sync", "cap": 3 + i, "ttl": -1, "tti": -1, "weigher": False,
                                                     "hasher": "id", "nkeys": 6, "lean": True},
                                    "progs": progs, "sched": [], "seed": ctx.seed * 37 + i, "scaled": [fl, rs, ws],
                                    "policy": "starve_maint", "budget": budget}) + "\n")
        trace3 = os.path.join(ctx.wd, name + ".trace.ndjson")
        hr = V.harness(["sched", beh, trace3], timeout=1800)
        if hr.returncode not in (0, 3):
            with open(trace3, "a") as f:
                f.write(json.dumps({"ev": "Crash", "rc": hr.returncode}) + "\n")
        st, viol, drift = conc_trace_check(ctx, name, trace3, [ctx.prop], threads=nthreads)
        ctx.events += st["events"]
        ctx.nontrivial += st["nt"].get(ctx.prop, 0)
        bad = conc_verdict(ctx, name, trace3, beh, viol)
        ctx.traces_ok += st["behaviours"] - len(bad)
        with open(trace3) as f:
            ctx.samples.append({"kind": "maintenance runs beside writers that keep the queue full",
                                "events": [json.loads(l) for l in f if '"MaintRun"' in l][:3]})


def run_conc_property(ctx):
    """C02 and C09: the properties that are about interleavings."""
    quick = ctx.tier == "quick"
    progs = CONC_QUICK if quick else [p for p in CONC_PROGS if not p.startswith("all_")]
    stage_conc_mc(ctx, progs + (["all_unit", "all_wgt"] if quick else ["all_unit", "all_wgt", "all_exp"]))
    stage_conc_s(ctx, progs, 400 if quick else 0, 300 if quick else 5000)
    stage_conc_s(ctx, ["all_unit", "all_wgt", "all_exp"], 500 if quick else 20000, 0)
    stage_conc_s(ctx, CONC_SCALED, 300 if quick else 0, 150 if quick else 3000, scaled=True)
    if ctx.prop == "C02":
        stage_conc_f(ctx, 30 if quick else 600, 4, 25)
        stage_race(ctx, 30 if quick else 600, 10)
    else:
        stage_burst(ctx, 5000 if quick else 50000)
        # a sequential client: every call returns (a call that does not is a Timeout event written by
        # the harness's watchdog); histories with expiry, both housekeeping regimes, un-synced bursts
        k = 1 if quick else 10
        stage_v(ctx, [("sync-small", 60 * k, 40), ("sync-far", 60 * k, 16), ("sync-exp", 60 * k, 30),
                      ("sync-burst", 100 * k, 3), ("sync-flush", 14, 0),
                      # the same histories with a weigher that looks its key up in the cache it belongs
                      # to (a callback of the user must not run under a lock of the cache)
                      ("sync-small+reent", 12 * k, 30), ("sync-far+reent", 6 * k, 16)])


def stage_conc_exp(ctx):
    """C05 / C06 beside other threads: the monitors Allowed_C05c / Allowed_C06c (SyncConc.tla) on every
    interleaving of the programs with expiry (TLC), on every edge replayed on real threads, and on
    seeded random schedules."""
    quick = ctx.tier == "quick"
    stage_conc_mc(ctx, CONC_EXP + CONC_EXP_SCALED + ([] if quick else ["all_exp"]))
    stage_conc_s(ctx, CONC_EXP, 200 if quick else 0, 100 if quick else 3000)
    stage_conc_s(ctx, CONC_EXP_SCALED, 400 if quick else 0, 100 if quick else 3000, scaled=True)
    if not quick:
        stage_conc_s(ctx, ["all_exp"], 20000, 0)


def stage_conc_light(ctx):
    """The concurrent clauses of the sequential properties: after every explored multi-threaded
    phase has quiesced the property must hold (counters, bound, refill, live objects)."""
    quick = ctx.tier == "quick"
    stage_conc_s(ctx, CONC_LIGHT if quick else [p for p in CONC_PROGS if not p.startswith("all_")],
                 150 if quick else 0, 100 if quick else 3000)
    stage_conc_s(ctx, ["all_wgt"], 300 if quick else 10000, 0)
    if ctx.prop in ("C03", "C04", "C10", "C11"):
        # the library as release users run it: with its debug assertions on, a counter that is about
        # to drift is turned into a panic (C08's business) before the drift can be observed
        V.build_harness_nodebug()
        V.CURRENT_BIN[0] = V.NODEBUG_BIN
        try:
            stage_conc_s(ctx, CONC_NODEBUG, 150 if quick else 0, 60 if quick else 1000, pre="cn_")
            stage_conc_s(ctx, ["syncflag"], 150 if quick else 0, 0, scaled=True, pre="cnq_")
        finally:
            V.CURRENT_BIN[0] = V.HBIN
    if ctx.prop == "C04":
        stage_burst(ctx, 5000 if quick else 50000)


def run_c17(ctx):
    """Configuration space enumerated completely by TLC; every configuration built for real."""
    r = V.model_check(ctx.wd, "builder_mc", "MC_Builder.tla", {"Emit": False}, ["Ok"], workers=4, timeout=600)
    ctx.mc.append({k: r[k] for k in ("name", "distinct", "generated", "ok", "wall_s", "timeout")})
    ctx.states += r["distinct"]
    ctx.transitions += r["generated"]
    if not r["ok"]:
        ctx.model_failures.append(("builder_mc", r["violated"] or r["error"], r["out"]))
    cfg = os.path.join(ctx.wd, "builder_emit.cfg")
    V.write_cfg(cfg, constants={"Emit": True})
    rc, outp, wall = V.run_tlc(ctx.wd, "MC_Builder.tla", cfg, workers=1, timeout=600, out="builder_emit.out")
    beh = os.path.join(ctx.wd, "builder.beh.ndjson")
    n = parse_edges(outp, beh)
    trace = os.path.join(ctx.wd, "builder.trace.ndjson")
    hr = V.harness(["build", beh, trace])
    if hr.returncode != 0:
        with open(trace, "a") as f:
            f.write(json.dumps({"ev": "Crash", "rc": hr.returncode}) + "\n")
        summ = {"events": 0, "mismatches": -1}
    else:
        summ = json.loads(hr.stdout.strip().splitlines()[-1])
    log("[replay] %-24s %6d configurations built, %d events, mismatching=%s" % ("builder", n, summ["events"], summ["mismatches"]))
    st, viol, drift = generic_trace_check(ctx, "TraceBuilder.tla", "builder", trace, {})
    ctx.replayed += n
    ctx.events += st["events"]
    ctx.nontrivial += st["nt"]
    ctx.conform += st["conform"]
    bad = {b for (_, b, _) in viol}
    ctx.traces_ok += st["behaviours"] - len(bad)
    lines = None
    for (p, bid, line) in viol:
        if lines is None:
            lines = V.read_lines(trace)
        i = line - 1
        start = i
        while start > 0 and lines[start].get("ev") != "Build":
            start -= 1
        evs = lines[start:i + 1]
        path = V.write_replay("C17", {"kind": "builder", "build": evs[0]}, [], evs, len(evs) - 1, "builder enumeration")
        ctx.violation(path, "configuration %d: event %s rejected" % (bid, evs[-1].get("ev")))
    for (bid, line) in drift[:10]:
        ctx.drift.append({"source": "builder", "behaviour": bid, "line": line})
    with open(beh) as f:
        ls = f.readlines()
    for j in (0, len(ls) // 2, len(ls) - 1):
        ctx.samples.append({"kind": "configuration built for real", "cfg": json.loads(ls[j])["cfg"]})
    ctx.mc_exhaustive_note = "the configuration space of C17 is enumerated completely"


def stage_asan(ctx):
    """C08 thorough: the conformance executions again under AddressSanitizer. A sanitizer report
    aborts the child process; the behaviour that was running becomes a Crash event."""
    V.build_harness_asan()
    V.CURRENT_BIN[0] = V.ASAN_BIN
    try:
        stage_v(ctx, [("unsync-small", 400, 60), ("unsync-mid", 80, 300), ("sync-small", 400, 60), ("sync-mid", 80, 300),
                      ("sync-burst", 120, 3), ("sync-grow", 60, 2), ("unsync-batch", 6, 0)])
        stage_conc_s(ctx, ["rej", "grow", "ixi"], 150, 400)
        name = "dq_asan"
        trace = os.path.join(ctx.wd, name + ".trace.ndjson")
        hr = V.harness(["deque", "random", str(ctx.seed + 7), "300", "200", "40", trace], timeout=1800)
        if hr.returncode != 0:
            with open(trace, "a") as f:
                f.write(json.dumps({"ev": "Crash", "rc": hr.returncode, "stderr": hr.stderr[-300:]}) + "\n")
        st, viol, drift = generic_trace_check(ctx, "TraceDeque.tla", name, trace, {"MaxAlloc": 40})
        ctx.events += st["events"]
        deque_verdict(ctx, name, trace, viol, drift)
        ctx.notes.append("thorough: conformance executions repeated under AddressSanitizer (nightly toolchain)")
    finally:
        V.CURRENT_BIN[0] = V.HBIN


def run_property(prop, tier, seed):
    V.build_harness()
    ctx = Ctx(prop, tier, seed)
    V.prepare_dir(ctx.wd)
    if prop == "C17":
        run_c17(ctx)
        return finish(ctx)
    if prop == "C15":
        run_c15(ctx, seq_plan(prop, tier))
        return finish(ctx)
    if prop in ("C02", "C09"):
        run_conc_property(ctx)
        return finish(ctx)
    if os.path.isdir(V.REPLAYS):
        for f in os.listdir(V.REPLAYS):
            if f.startswith(prop + "-"):
                os.remove(os.path.join(V.REPLAYS, f))
    plan = seq_plan(prop, tier)
    if plan is None:
        raise ToolError("no plan for %s" % prop)
    stage_mc(ctx, plan.get("mc", []))
    stage_r(ctx, plan.get("r", []))
    stage_v(ctx, plan.get("v", []))
    if prop in ("C14", "C08"):
        stage_sketch(ctx)
    if prop in ("C08", "C11"):
        stage_deque(ctx)
    if prop in ("C03", "C04", "C08", "C10", "C11"):
        stage_conc_light(ctx)
    if prop in ("C05", "C06"):
        stage_conc_exp(ctx)
    if prop == "C16":
        stage_iter(ctx)
        # the final iteration of scheduled runs: nothing that is unambiguously the last write of its
        # key may be missing (Allowed_C03c), no key twice
        stage_conc_s(ctx, ["deadrm", "iax", "ixi"], 150 if tier == "quick" else 0, 60 if tier == "quick" else 1000)
    if prop == "C08" and tier == "thorough":
        stage_asan(ctx)
    stage_findings(ctx)
    return finish(ctx)


def run_replay(path):
    """Re-runs one replay file against the current tree and judges it with its monitor."""
    V.build_harness()
    body = json.load(open(path))
    prop = body["property"]
    wd = os.path.join(V.WORK, "replay")
    V.prepare_dir(wd)
    beh = os.path.join(wd, "b.ndjson")
    with open(beh, "w") as f:
        f.write(json.dumps({"id": 0, "cfg": body["cfg"], "ops": body["ops"]}) + "\n")
    trace = os.path.join(wd, "t.ndjson")
    V.replay_file(beh, trace)
    res = V.trace_check(wd, "replay", trace, [prop], body["cfg"].get("nkeys", 4), layer_i=False)
    if res["viol"]:
        print("VIOLATION property=%s replay=%s" % (prop, path))
        return 1
    print("OK replay accepted by monitor %s" % prop)
    return 0


