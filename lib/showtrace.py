#!/usr/bin/env python3
"""showtrace.py <trace.ndjson> <line> [context]: prints the behaviour up to a line, compactly."""
import json, sys
L = [json.loads(l) for l in open(sys.argv[1])]
i = int(sys.argv[2]); ctx = int(sys.argv[3]) if len(sys.argv) > 3 else 10**9
j = i
while L[j-1]['ev'] != 'Config': j -= 1
print(j, {k: v for k, v in L[j-1].items() if k in ('kind','cap','ttl','tti','weigher','hasher','id')})
for x in range(max(j+1, i-ctx), i+1):
    e = L[x-1]; s = e.get('snap', {})
    op = {k: v for k, v in e.items() if k not in ('snap', 'mx', 'ev')}
    res = [(r['k'], r['v'], r['w'], r['la'], r['lm'], 'A' if r.get('adm') else '-', 'D' if r.get('dirty') else '-') for r in s.get('res', [])]
    print(x, e['ev'], op, 'res', res, 'ao', s.get('ao'), 'wo', s.get('wo'), 'ec/ws', s.get('ec'), s.get('ws'), 'q', s.get('rlen'), s.get('wlen'), 'va', s.get('va'), 'lk/lv', s.get('lk'), s.get('lv'), 'fq', s.get('fq'))
    if e.get('mx'): print('      mx', [(m['t'], m['k']) for m in e['mx']])
