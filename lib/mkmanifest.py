#!/usr/bin/env python3
"""Writes /verif/MANIFEST.json from the table below (one source of truth for the interface)."""
import json, os, subprocess
ROOT = os.path.dirname(os.path.dirname(os.path.abspath(__file__)))

SEQ_TEXT = ("TLC checks the TLA+ monitor of this property (spec/Monitors.tla, {mon}) against the implementation "
            "specifications (spec/UnsyncCache.tla exhaustively over every history of small universes; "
            "spec/SyncCache.tla over every history up to a depth bound, every sync() placement and both "
            "housekeeping regimes). The specifications are bound to the code three ways: one behaviour per edge of "
            "the bounded state graph is executed on the real caches and compared event by event with the model "
            "(mode R); seeded random histories at the real constants are executed and judged by the same monitor "
            "with TLC (mode V); and Layer I is run beside the code as an interpreter on those traces (drift). "
            "Only a monitor rejection of a trace recorded from the real code is a VIOLATION.")
NOTE = ("Trusted: TLC, the CommunityModules JSON reader, the read-only snapshot hooks, the mock clock standing in "
        "for Instant::now. Exhaustive only within the small constants stated in the evidence file; beyond them "
        "coverage is by seeded random histories. {extra}")

CLAIMED = {
    "C01": ("Allowed_C01", "5 C01", ""),
    "C03": ("Allowed_C03", "5 C03", "On the concurrent cache the insert-fits clause is judged at the sync() that follows the insert. Under interleavings (spec/SyncConc.tla, every schedule TLC emits replayed on real threads): the fit probe, the refill and Allowed_C03c (an insert that is unambiguously the last write of its key is in the final iteration), also on a harness built with the library's debug assertions off."),
    "C04": ("Allowed_C04", "5 C04", "The overshoot clause (between maintenance runs) is covered by the burst driver of C09."),
    "C05": ("Allowed_C05", "5 C05/C06", "Under interleavings: Allowed_C05c (spec/SyncConc.tla) model-checked on every interleaving of the race programs with expiry and evaluated on every scheduled run of them on real threads."),
    "C06": ("Allowed_C06", "5 C05/C06", "Under interleavings: Allowed_C06c (spec/SyncConc.tla) model-checked on every interleaving of the race programs with expiry and evaluated on every scheduled run of them on real threads."),
    "C07": ("Allowed_C07", "5 C07", "The monitor remembers contains_key answers, so its exhaustive universes have two keys."),
    "C10": ("Allowed_C10", "5 C10", ""),
    "C11": ("Allowed_C11", "5 C11", "Live objects are counted by the harness's instrumented key/value types."),
    "C12": ("Allowed_C12", "5 C12", ""),
    "C13": ("Allowed_C13", "5 C13", "The decision is predicted from the implementation's own popularity estimates read through the hook."),
    "C16": ("Allowed_C16", "5 C16", "Beside concurrent writers: free-running iterator and writer threads judged by IterOk (spec/TraceConc.tla); the final iteration of scheduled runs judged by Allowed_C03c."),
    "C08": ("Allowed_C08 plus the crash flags of UnsyncCache.tla / SyncCache.tla, Deque.tla's well-formedness and refinement invariants and Sketch.tla's overflow flag",
            "5 C08", "TLC evaluates the list invariants on structural walks of the real heap taken after every call; every execution runs with overflow checks and debug assertions on, each behaviour isolated (a panic or a signal becomes a Panic / Crash event that no monitor accepts). Machine-level memory safety beyond that is the run-time environment's verdict, not TLA+'s (DESIGN.md 2.3)."),
    "C14": ("Allowed_Sk14 in spec/Sketch.tla for the estimator itself, Allowed_C14 for the cache-level clause",
            "5 C14", "Sketch.tla is model-checked exhaustively for the tiny tables of capacities 0..3 with colliding and disjoint hash families; abstract hashes are concretised by search through the facade."),
}
EXTRA = {
    "C17": dict(
        text="spec/Builder.tla states what build(), Cache::new and policy() must do; TLC enumerates the whole "
             "configuration space of the property (both cache kinds, builder / new, every knob absent or present, "
             "boundary durations around 1000 years, capacities 0..u64::MAX, initial capacities: 4714 configurations) "
             "and checks the C17 monitor on the model. Every configuration is then built for real (catch_unwind around "
             "build), followed by a short hasher-independent history and by its equivalent configurations (other "
             "initial_capacity; new(n) against builder().max_capacity(n)); TLC judges the recorded Build / Follow / Twin "
             "events with the monitor and compares them with Builder.tla.",
        note="The enumeration is complete for the listed boundary values, not for all u64 / Duration values. Trusted: TLC, "
             "the JSON reader, the harness's mapping of durations and capacities to indices.",
        technique="TLA+ monitor model-checked over the complete configuration enumeration; every configuration replayed on the real builders; recorded events validated by TLC",
        ref="5 C17"),
    "C15": dict(
        text="Model level: TLC checks, on every reachable state of UnsyncCache.tla (exhaustive) and SyncCache.tla "
             "(depth-bounded) and for every contains_key / iter step, that the step changes nothing beyond the work "
             "every other call performs first anyway (Pure in spec/MC_Unsync.tla and spec/MC_Sync.tla); the "
             "conformance stages of the other properties tie those models to the code. Code level: metamorphic "
             "pairs. Seeded random histories h are executed beside h' = h with extra contains_key / iter calls "
             "inserted at random positions (tight capacities, tti, both caches); spec/TracePair.tla, run by TLC, walks "
             "the two recorded traces in lock-step, skips the extra events and rejects the first other event that "
             "differs in operation, arguments or result.",
        note="The pair monitor compares what callers can see (results of get / contains_key / iter), not internal "
             "snapshots. Universes are smaller than one maintenance batch. Trusted: TLC, the JSON reader, the harness "
             "executing both halves of a pair under the same configuration and clock script.",
        technique="TLA+ action property model-checked on the implementation specs; metamorphic trace pairs validated by a TLA+ pair monitor with TLC",
        ref="5 C15"),
    "C02": dict(
        text="spec/SyncConc.tla interleaves the operators of SyncCache.tla at the switch points the code marks with "
             "verif::point (map access, housekeeping decision, send, mutex acquisition, every queued record, the two "
             "scans, publication; handle_upsert of an entry not yet admitted is three steps, m.write / m.w2 / m.w3, one per "
             "access to the map). TLC explores every interleaving of a catalogue of two- and three-thread race "
             "programs with the C02 monitor (Allowed_C02: a get returns nothing or a value not superseded by a write "
             "that returned before the get began; per-reader per-writer monotonicity; the final contents) evaluated on "
             "every invoke / return. The same schedules are then forced on real threads by a controller that lets "
             "exactly one thread run between two points (one run per edge of the interleaving graph, the parked tags, "
             "residents and queue lengths compared with the model), followed by seeded random schedules and by "
             "free-running threads whose stamped logs TLC judges with the same monitor (spec/TraceConc.tla).",
        note="Interleavings are explored at switch-point granularity: races inside DashMap, crossbeam-channel, triomphe "
             "or between two atomics touched within one step are not explored. The monitor is weaker than "
             "linearizability (a miss is always allowed). Trusted: TLC, the controller and its logging.",
        technique="TLA+ interleaving model checked with TLC; TLC-generated schedules replayed on real threads through cfg-guarded switch points; recorded invoke/return traces validated by a TLA+ monitor with TLC",
        ref="5 C02"),
    "C09": dict(
        text="On spec/SyncConc.tla with scaled queues (write channel of 2, flush point 2) TLC checks, for every "
             "interleaving of the race programs, that some thread can always move until all have finished "
             "(NoDeadlock) and that every run finishes under weak fairness of each thread (<>fin), including programs "
             "that fill the write channel. On the code: every schedule is executed with a step budget and a "
             "release-then-watchdog rule (a run that does not finish is a Timeout event, which the monitor never "
             "accepts), and un-synced bursts of thousands of operations by 1 and 8 threads run in both housekeeping "
             "regimes; every operation must return and maintenance must still drain the queues afterwards. One "
             "maintenance run beside writers that keep the queue above its flush point lets them complete a bounded "
             "number of inserts (MaintRun clause); histories with a weigher that calls back into its own cache must "
             "return as well.",
        note="Wall-clock limits (120 s for bursts that normally take milliseconds) are applied only to free-running "
             "bursts; scheduled runs use step counts. Liveness is checked on the unconstrained finite graph of each "
             "program. Trusted: TLC, the controller.",
        technique="TLC deadlock/liveness check of the TLA+ interleaving model; schedules replayed on real threads with step budgets; burst traces validated by TLC",
        ref="5 C09"),
}   # filled by later rounds: property -> dict(text=..., note=..., technique=..., category=...)


def main():
    props = [json.loads(l) for l in open(os.path.join(ROOT, "properties.jsonl"))]
    commits = subprocess.run(["git", "-C", "/repo", "log", "--format=%h %s"], capture_output=True, text=True).stdout
    hooks = [l.split()[0] for l in commits.splitlines() if "verif hooks" in l]
    checks = []
    na = []
    for p in props:
        pid = p["id"]
        if pid in CLAIMED or pid in EXTRA:
            if pid in EXTRA:
                e = EXTRA[pid]
                text, note, tech, cat, ref = e["text"], e["note"], e["technique"], e.get("category", "model_checking"), e["ref"]
            else:
                mon, ref, extra = CLAIMED[pid]
                text = SEQ_TEXT.format(mon=mon)
                note = NOTE.format(extra=extra)
                tech = "TLA+ monitor model-checked with TLC against the implementation specs; spec behaviours replayed on the code; recorded traces validated by TLC"
                cat = "model_checking"
            checks.append({
                "property_id": pid,
                "quick_cmd": "./check %s --tier quick" % pid,
                "thorough_cmd": "./check %s --tier thorough" % pid,
                "evidence_file": "evidence/%s.json" % pid,
                "replay_cmd_template": "./check replay {path}",
                "engine": "tlc+harness",
                "level_claimed": {"category": cat, "text": text, "design_ref": "DESIGN.md section " + ref},
                "level_note": note,
                "technique": tech,
            })
        else:
            na.append({"property_id": pid, "reason": "check not built yet (work in progress; see DESIGN.md section 10)"})
    m = {
        "version": 1,
        "setup_cmd": "./check setup",
        "hooks": {
            "guard": "mini_moka_verif",
            "enable": "rustflags --cfg mini_moka_verif in /verif/harness/.cargo/config.toml (the harness has a path dependency on /repo)",
            "baseline_off_cmd": "cd /repo && cargo test --workspace --no-fail-fast --offline",
            "source_commits": hooks,
            "add_only": True,
        },
        "engines": [
            {"name": "tlc+harness", "path": "check",
             "serves_properties": [c["property_id"] for c in checks],
             "kind_free_text": "TLA+ specifications (spec/*.tla) checked with TLC; Rust harness (harness/) executing "
                               "TLC-generated behaviours and random histories on the real crate built from /repo with "
                               "hooks on; TLC trace validation (spec/TraceCheck.tla)"}],
        "checks": checks,
        "notes": "Known findings are listed in known_findings.json; see DESIGN.md sections 6 and 7.",
        "not_applicable": na,
    }
    json.dump(m, open(os.path.join(ROOT, "MANIFEST.json"), "w"), indent=1)
    print("MANIFEST.json: %d checks, %d not claimed" % (len(checks), len(na)))


if __name__ == "__main__":
    main()
