#!/bin/bash
# sweep.sh <tier> <seed> <property>...: runs the checks one after the other on the unchanged tree and
# prints one line per check (exit code, wall time, verdict lines). Used for seed-robustness sweeps
# and for trial runs of the thorough tier; evidence written by these runs is not committed.
tier=$1; seed=$2; shift 2
for p in "$@"; do
  t0=$(date +%s)
  VERIF_SEED=$seed ./check $p --tier $tier > /tmp/sweep_$p.out 2> /tmp/sweep_$p.err; rc=$?
  t1=$(date +%s)
  echo "SWEEP $p tier=$tier seed=$seed exit=$rc wall=$((t1-t0))s $(grep -E '^(VIOLATION|OK)' /tmp/sweep_$p.out | head -3 | tr '\n' ' ') $(grep -c '^KNOWN-FINDING' /tmp/sweep_$p.out) known $(grep -c '^DRIFT' /tmp/sweep_$p.err) drift"
  if [ $rc -ne 0 ]; then tail -5 /tmp/sweep_$p.err; fi
done
