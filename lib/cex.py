#!/usr/bin/env python3
"""cex.py <tlc.out>: prints the history (h) and selected fields of the last state of a TLC counterexample."""
import re, sys
t = open(sys.argv[1]).read()
blocks = t.split('\nState ')
last = blocks[-1]
m = re.search(r'/\\ h = (<<.*?>>)\n/\\', last, re.S)
print('h =', re.sub(r'\s+', ' ', m.group(1)) if m else '?')
m = re.search(r'/\\ bad = (\{.*?\})', last)
print('bad =', m.group(1) if m else '?')
for f in sys.argv[2:]:
    m = re.search(r'\b%s \|->\s*(.*?)(,\n|\n)' % f, last, re.S)
    print(f, '=', re.sub(r'\s+', ' ', m.group(1)) if m else '?')
