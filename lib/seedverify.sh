#!/bin/bash
# seedverify.sh <id>: confirms, in the scratch worktree /tmp/wt_<id>, that the seeded change compiles,
# passes the existing suite, and that the demonstration fails with it and passes without it.
id=$1; wt=/tmp/wt_$id; cd $wt || exit 2
export CARGO_NET_OFFLINE=true
demo=tests/demo_$id.rs
flags=""; grep -q "mini_moka_verif" $demo && flags="--cfg mini_moka_verif"
echo "== $id: existing suite with the change"
cargo test --offline --lib 2>&1 | grep "test result" | head -1
cargo test --offline --doc 2>&1 | grep "test result" | tail -1
echo "== demo with the change (must fail)"
RUSTFLAGS="$flags" cargo test --offline --test demo_$id --target-dir target/demo 2>&1 | grep -E "test result|error\[" | head -3
git diff -- src > /tmp/seedverify_$id.diff; git checkout -q -- src   # (git stash is shared between worktrees)
echo "== demo without the change (must pass)"
RUSTFLAGS="$flags" cargo test --offline --test demo_$id --target-dir target/demo 2>&1 | grep -E "test result|error\[" | head -3
git apply /tmp/seedverify_$id.diff && rm -f /tmp/seedverify_$id.diff
git diff -- src | cmp -s - patch.diff && echo "patch.diff current" || echo "patch.diff DIFFERS"
