#!/usr/bin/env python3
"""seedtest.py <id> [check ...]: applies seeded/<id>/patch.diff to /repo, runs the given quick checks
(default: the property's own), records the outcome in seeded/<id>/result.json, restores /repo."""
import json, os, subprocess, sys, time
ROOT = os.path.dirname(os.path.dirname(os.path.abspath(__file__)))
sid = sys.argv[1]
d = os.path.join(ROOT, "seeded", sid)
checks = sys.argv[2:] or [json.load(open(os.path.join(d, "meta.json"))).get("property", sid[:3])]
assert subprocess.run(["git", "-C", "/repo", "status", "--porcelain"], capture_output=True, text=True).stdout.strip() == "", "/repo not clean"
subprocess.check_call(["git", "-C", "/repo", "apply", os.path.join(d, "patch.diff")])
res = {}
try:
    for c in checks:
        t0 = time.time()
        r = subprocess.run([os.path.join(ROOT, "check"), c, "--tier", "quick"], capture_output=True, text=True)
        lines = [l for l in r.stdout.splitlines() if l.startswith(("VIOLATION", "OK"))] + \
                [l[:300] for l in r.stdout.splitlines() if l.startswith("KNOWN-FINDING")]
        drift = [l for l in r.stderr.splitlines() if l.startswith("DRIFT")]
        res[c] = {"exit": r.returncode, "wall_s": round(time.time() - t0), "lines": lines[:6], "drift": drift[:3],
                  "detail": [l.strip() for l in r.stderr.splitlines() if "rejected" in l][:4]}
        print(c, "exit", r.returncode, lines[:2], drift[:1])
finally:
    subprocess.check_call(["git", "-C", "/repo", "checkout", "--", "."])
    # evidence written while /repo was changed is not evidence about /repo
    subprocess.call(["git", "-C", ROOT, "checkout", "--", "evidence"])
old = {}
p = os.path.join(d, "result.json")
if os.path.exists(p):
    old = json.load(open(p))
old.update(res)
json.dump(old, open(p, "w"), indent=1)
