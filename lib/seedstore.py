#!/usr/bin/env python3
"""seedstore.py <id> <property> <round> <change> <needs>: after lib/seedverify.sh <id> confirmed a seeded
change in /tmp/wt_<id>, keeps it as seeded/<id>/ (patch.diff, demonstration, meta.json) and removes the worktree."""
import json, os, shutil, subprocess, sys
ROOT = os.path.dirname(os.path.dirname(os.path.abspath(__file__)))
sid, prop, rnd, change, needs = sys.argv[1:6]
wt = "/tmp/wt_" + sid
d = os.path.join(ROOT, "seeded", sid)
os.makedirs(d, exist_ok=True)
diff = subprocess.run(["git", "-C", wt, "diff", "--", "src"], capture_output=True, text=True).stdout
assert diff.strip(), "no change in " + wt
open(os.path.join(d, "patch.diff"), "w").write(diff)
demo = os.path.join(wt, "tests", "demo_%s.rs" % sid)
shutil.copy(demo, os.path.join(d, "demo_%s.rs" % sid))
json.dump({"property": prop, "change": change, "needs": needs, "round": int(rnd),
           "confirmed": "lib/seedverify.sh %s in the sub-agent's scratch worktree: existing suite passes with the "
                        "change; demo fails with it and passes without it" % sid,
           "checked_with": "lib/seedtest.py %s %s; outcome in result.json" % (sid, prop)},
          open(os.path.join(d, "meta.json"), "w"), indent=1)
subprocess.run(["git", "-C", "/repo", "worktree", "remove", "--force", wt])
print("stored", d)
