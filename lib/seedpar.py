#!/usr/bin/env python3
"""seedpar.py [-j N] <id>[:<check>,<check>] ...

Runs seeded changes against the quick checks WITHOUT touching /repo: for every change a scratch
worktree of /repo's HEAD gets the patch, a private copy of /verif (committed files of the working
tree, no build output) gets its harness pointed at that worktree, and the quick check(s) run there.
Outcomes go to seeded/<id>/result.json exactly as lib/seedtest.py writes them. Worktrees and copies
are removed afterwards. Trial tool only: the registered checks always build from /repo itself.
"""
import json, os, shutil, subprocess, sys, time
from concurrent.futures import ThreadPoolExecutor

ROOT = os.path.dirname(os.path.dirname(os.path.abspath(__file__)))
SCR = os.environ.get("SEEDPAR_SCRATCH", "/tmp/seedpar")


def sh(*a, **k):
    return subprocess.run(list(a), capture_output=True, text=True, **k)


def one(spec):
    sid, _, chk = spec.partition(":")
    d = os.path.join(ROOT, "seeded", sid) if not sid.startswith("equiv/") else None
    patch = os.path.join(d, "patch.diff") if d else os.path.join(ROOT, "seeded", sid + ".diff")
    if d:
        checks = chk.split(",") if chk else [json.load(open(os.path.join(d, "meta.json"))).get("property", sid[:3])]
    else:
        checks = chk.split(",")
    tag = sid.replace("/", "_")
    wt, vf = os.path.join(SCR, "r_" + tag), os.path.join(SCR, "v_" + tag)
    for p in (wt, vf):
        if os.path.exists(p):
            sh("git", "-C", "/repo", "worktree", "remove", "--force", p)
            shutil.rmtree(p, ignore_errors=True)
    os.makedirs(SCR, exist_ok=True)
    res = {}
    try:
        base = (json.load(open(os.path.join(d, "meta.json"))).get("base") if d else None) or "HEAD"
        r = sh("git", "-C", "/repo", "worktree", "add", "-q", "--detach", wt, base)
        assert r.returncode == 0, r.stderr
        r = sh("git", "-C", wt, "apply", patch)
        assert r.returncode == 0, "patch does not apply: " + r.stderr
        r = sh("rsync", "-a", BASE + "/", vf + "/")
        assert r.returncode == 0, r.stderr
        ct = os.path.join(vf, "harness", "Cargo.toml")
        s = open(ct).read().replace('path = "/repo"', 'path = "%s"' % wt)
        open(ct, "w").write(s)
        r = sh(os.path.join(vf, "check"), "setup", cwd=vf)
        if r.returncode != 0:
            res = {c: {"exit": 2, "wall_s": 0, "lines": [], "drift": [], "detail": ["setup failed: " + (r.stdout + r.stderr)[-400:]]} for c in checks}
        else:
            for c in checks:
                t0 = time.time()
                r = sh(os.path.join(vf, "check"), c, "--tier", "quick", cwd=vf)
                out = r.stdout.splitlines()
                lines = [l.replace(vf, "/verif") for l in out if l.startswith(("VIOLATION", "OK"))] + \
                        [l[:300] for l in out if l.startswith("KNOWN-FINDING")]
                drift = [l for l in r.stderr.splitlines() if l.startswith("DRIFT")]
                res[c] = {"exit": r.returncode, "wall_s": round(time.time() - t0), "lines": lines[:6], "drift": drift[:3],
                          "detail": [l.strip() for l in (r.stderr + r.stdout).splitlines() if "rejected" in l][:4]}
                if r.returncode == 2:
                    res[c]["detail"].append((r.stderr or r.stdout)[-600:])
                # keep the first replay of a detection beside the change
                if d and r.returncode == 1:
                    for l in out:
                        if l.startswith("VIOLATION") and "replay=" in l:
                            rp = l.split("replay=")[1].strip()
                            if os.path.exists(rp):
                                shutil.copy(rp, os.path.join(d, "replay_%s.json" % c))
                            break
    except AssertionError as e:
        res = {c: {"exit": 2, "wall_s": 0, "lines": [], "drift": [], "detail": [str(e)[-400:]]} for c in (chk.split(",") if chk else ["?"])}
    finally:
        sh("git", "-C", "/repo", "worktree", "remove", "--force", wt)
        shutil.rmtree(wt, ignore_errors=True)
        shutil.rmtree(vf, ignore_errors=True)
    p = os.path.join(d, "result.json") if d else os.path.join(ROOT, "seeded", sid + ".result.json")
    old = json.load(open(p)) if os.path.exists(p) else {}
    old.update(res)
    json.dump(old, open(p, "w"), indent=1)
    print(sid, {c: (v["exit"], v["wall_s"], v["lines"][:1]) for c, v in res.items()}, flush=True)
    return sid, res


BASE = os.path.join(SCR, "base_%d" % os.getpid())


def main():
    a = sys.argv[1:]
    # one snapshot of /verif for the whole batch: later edits of the working tree do not reach it
    os.makedirs(SCR, exist_ok=True)
    r = sh("rsync", "-a", "--delete", "--exclude", "target*", "--exclude", "work", "--exclude", "replays", "--exclude", ".git",
           "--exclude", "seeded", ROOT + "/", BASE + "/")
    assert r.returncode == 0, r.stderr
    jobs = 3
    if a and a[0] == "-j":
        jobs = int(a[1]); a = a[2:]
    with ThreadPoolExecutor(max_workers=jobs) as ex:
        list(ex.map(one, a))
    sh("git", "-C", "/repo", "worktree", "prune")
    shutil.rmtree(BASE, ignore_errors=True)


if __name__ == "__main__":
    main()
