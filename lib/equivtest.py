#!/usr/bin/env python3
"""equivtest.py <E-id> <check> ...: applies seeded/equiv/<E-id>_*.diff (a change of an internal tuning
constant under which every property still holds) to /repo, runs the given quick checks, restores /repo.
Every check must exit 0 (DRIFT lines are expected: the code no longer does what Layer I does)."""
import glob, json, os, subprocess, sys, time
ROOT = os.path.dirname(os.path.dirname(os.path.abspath(__file__)))
eid = sys.argv[1]
checks = sys.argv[2:]
patch = glob.glob(os.path.join(ROOT, "seeded", "equiv", eid + "_*.diff"))[0]
assert subprocess.run(["git", "-C", "/repo", "status", "--porcelain"], capture_output=True, text=True).stdout.strip() == "", "/repo not clean"
subprocess.check_call(["git", "-C", "/repo", "apply", patch])
res = {}
try:
    for c in checks:
        t0 = time.time()
        r = subprocess.run([os.path.join(ROOT, "check"), c, "--tier", "quick"], capture_output=True, text=True)
        lines = [l for l in r.stdout.splitlines() if l.startswith(("VIOLATION", "OK"))]
        known = len([l for l in r.stdout.splitlines() if l.startswith("KNOWN-FINDING")])
        drift = [l for l in r.stderr.splitlines() if l.startswith("DRIFT")]
        res[c] = {"exit": r.returncode, "wall_s": round(time.time() - t0), "lines": lines[:4], "known_findings": known,
                  "drift_lines": len(drift), "drift_sample": drift[:2],
                  "stderr_tail": r.stderr.splitlines()[-3:] if r.returncode else []}
        print(eid, c, "exit", r.returncode, lines[:2], "drift=%d" % len(drift), flush=True)
finally:
    subprocess.check_call(["git", "-C", "/repo", "checkout", "--", "."])
p = os.path.join(ROOT, "seeded", "equiv", eid + ".result.json")
old = json.load(open(p)) if os.path.exists(p) else {}
old.update(res)
json.dump(old, open(p, "w"), indent=1)
