#!/usr/bin/env python3
"""selftest.py: sensitivity of the monitors at model level. Layer I carries every defect found so far as
a switchable deviation (Dev). With a deviation switched on, TLC must find a behaviour of Layer I that
the monitor of the named property rejects; with all deviations off it finds none (that is what the
checks run). A monitor that no longer rejects a historical defect has been weakened."""
import os, sys, json, time
sys.path.insert(0, os.path.dirname(os.path.abspath(__file__)))
import vcheck as V, plans as P

# (deviation, module, slice, property whose monitor must reject, overrides)
CASES = [
    ("F1", "U", "cap2", "C10", {}), ("F2", "U", "cap2", "C10", {}), ("F3", "U", "cap2", "C10", {}),
    ("F4", "U", "cap1_ttl", "C10", {}),
    # four odd counters at an aging step need a sample period of 4 with three keys
    ("F8", "U", "cap2", "C08", {"Period": 4}), ("F13", "U", "cap_weight2", "C15", {}),
    ("F5", "S", "s_cap1", "C10", {}), ("F6", "S", "s_cap2_tti", "C03", {"depth": 8}), ("F9", "S", "s_cap2_w", "C10", {}),
    ("F10", "S", "s_cap1_ttl", "C03", {}), ("F12", "S", "s_cap1_ttl", "C03", {"depth": 7}), ("F7", "S", "s_cap1", "C10", {}),
    # eight calls; the history needs an insert over a dead entry to share its EntryInfo, i.e. open
    # finding F15, which the code still has: F14 is switched on beside F15, and the control case
    # (F15 alone, same slice and depth) must NOT be rejected
    ("F14+F15", "S", "s_cap1", "C03", {"depth": 9, "vals": {1}}),
    ("F15", "S", "s_cap1", "C03", {"depth": 9, "vals": {1}, "control": True}),
    ("F15", "S", "s_cap2_ttl_w", "C03", {"depth": 7}),
    # two threads write one key with different weights and queue their records in the opposite order:
    # every interleaving of race program `grow`; the final counters must equal the weights of the values held
    ("F16", "C", "grow", "C10", {}),
]


def main():
    wd = os.path.join(V.WORK, "selftest")
    V.prepare_dir(wd)
    out = []
    bad = 0
    for dev, kind, sl, prop, over in CASES:
        c = dict(P.Q[sl]) if kind != "C" else {}
        if "depth" in over:
            c["depth"] = over["depth"]
        if "vals" in over:
            c["vals"] = over["vals"]
        if kind == "U":
            k = P.constants_mc(c, [prop])
            k["Dev"] = {dev}
            if "Period" in over:
                k["Period"] = over["Period"]
            r = V.model_check(wd, "self_%s_%s" % (dev, prop), c["module"], k, ["Ok", "NoPanic"], constraints=["Stop"],
                              workers=8, timeout=600)
        elif kind == "C":
            r = V.model_check(wd, "self_%s_%s" % (dev, prop), "MC_Conc.tla", P.conc_constants(sl, False, False, (dev,)),
                              ["Ok", "NoCrash", "NoDeadlock"], workers=8, timeout=900)
        else:
            r = V.model_check(wd, "self_%s_%s" % (dev, prop), c["module"], P.constants_smc(c, [prop], dev=tuple(dev.split("+"))),
                              ["Ok", "NoPanic"], constraints=["Stop", "Depth"], view="ViewD", workers=8, timeout=1800)
            # (ViewD: the length of the history is part of the fingerprint, so the depth bound cuts
            # exactly and the outcome does not depend on the order in which the workers find states)
        rejected = (not r["ok"]) and r["violated"] in ("Ok", "NoPanic")
        if over.get("control"):
            # a control: this deviation alone must stay silent on this slice (so that the case it
            # accompanies says something about the other deviation)
            out.append({"deviation": dev, "slice": sl, "monitor": prop, "control": True, "silent": not rejected,
                        "distinct": r["distinct"], "wall_s": r["wall_s"]})
            if rejected or r["timeout"]:
                bad += 1
            if os.path.exists(r["out"]):
                os.remove(r["out"])
            continue
        out.append({"deviation": dev, "slice": sl, "monitor": prop, "rejected": rejected, "violated": r["violated"],
                    "distinct": r["distinct"], "wall_s": r["wall_s"]})
        if not rejected:
            bad += 1
        if os.path.exists(r["out"]):
            os.remove(r["out"])
    json.dump({"cases": out, "all_rejected": bad == 0}, open(os.path.join(V.ROOT, "evidence", "monitor_selftest.json"), "w"), indent=1)
    for o in out:
        if o.get("control"):
            print("%-7s on %-12s monitor %s: control, %s" % (o["deviation"], o["slice"], o["monitor"], "silent" if o["silent"] else "NOT SILENT"))
        else:
            print("%-7s on %-12s monitor %s: %s" % (o["deviation"], o["slice"], o["monitor"], "rejected" if o["rejected"] else "NOT REJECTED"))
    return 0 if bad == 0 else 2


sys.exit(main())
