#!/usr/bin/env python3
"""Writes seeded/RESULTS.md from seeded/*/meta.json and result.json."""
import json, os, glob
root = os.path.dirname(os.path.dirname(os.path.abspath(__file__)))
rows = []
dirs = [os.path.dirname(m) for m in glob.glob(os.path.join(root, "seeded", "*", "meta.json"))]
dirs.sort(key=lambda d: (json.load(open(os.path.join(d, "meta.json"))).get("round", 1), os.path.basename(d)))
for d in dirs:
    sid = os.path.basename(d)
    meta = json.load(open(os.path.join(d, "meta.json")))
    res = json.load(open(os.path.join(d, "result.json"))) if os.path.exists(os.path.join(d, "result.json")) else {}
    cells = []
    for c, r in sorted(res.items()):
        cells.append("%s: %s" % (c, "**VIOLATION**" if r["exit"] == 1 else ("tool error" if r["exit"] == 2 else "not detected")))
    rows.append((sid, meta.get("round", 1), meta.get("property", sid[:3]), meta.get("change", ""), meta.get("needs", ""),
                 "; ".join(cells) or "not run yet"))
with open(os.path.join(root, "seeded", "RESULTS.md"), "w") as f:
    f.write("# Seeded changes (written by independent sub-agents from the property text only)\n\n")
    f.write("Each change compiles, passes the 35 unit tests and the doc tests, and comes with a demonstration that fails with it and\n"
            "passes without it (confirmed with `lib/seedverify.sh`). `lib/seedtest.py <id> [checks]` applies the patch to /repo, runs the\n"
            "quick check(s) and restores /repo.\n\n")
    f.write("| id | round | property | change | needs | quick checks |\n|---|---|---|---|---|---|\n")
    for r in rows:
        f.write("| %s | %s | %s | %s | %s | %s |\n" % r)
    det = sum(1 for r in rows if "**VIOLATION**" in r[5])
    f.write("\n%d changes, %d detected by at least one quick check of the property they were written against.\n" % (len(rows), det))
print(open(os.path.join(root, "seeded", "RESULTS.md")).read()[-400:])
