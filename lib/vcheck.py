"""Orchestrator of the mini-moka verification checks.

  ./check setup
  ./check <Cxx> [--tier quick|thorough] [--seed N]
  ./check replay <replay-file>

Exit status: 0 the property held on everything explored; 1 a violation was found
(a line `VIOLATION property=<id> replay=<path>` is printed); 2 tool error.
"""
import hashlib
import json
import os
import re
import shutil
import subprocess
import sys
import time

ROOT = os.path.dirname(os.path.dirname(os.path.abspath(__file__)))
SPEC = os.path.join(ROOT, "spec")
HARNESS = os.path.join(ROOT, "harness")
HBIN = os.path.join(HARNESS, "target", "debug", "vharness")
WORK = os.path.join(ROOT, "work")
EVID = os.path.join(ROOT, "evidence")
REPLAYS = os.path.join(ROOT, "replays")
TLA_CP = "/opt/veriftools/tla/tla2tools.jar:/opt/veriftools/tla/CommunityModules-deps.jar"


CURRENT_BIN = [HBIN]     # the harness binary in use (swapped for the AddressSanitizer build)


class ToolError(Exception):
    pass


def log(*a):
    print(*a, file=sys.stderr, flush=True)


# ---------------------------------------------------------------------------
# building


def build_harness():
    env = dict(os.environ, CARGO_NET_OFFLINE="true")
    t0 = time.time()
    r = subprocess.run(["cargo", "build", "--offline", "--quiet"], cwd=HARNESS, env=env,
                       stdout=subprocess.PIPE, stderr=subprocess.STDOUT, text=True)
    if r.returncode != 0:
        raise ToolError("harness build failed:\n" + r.stdout[-4000:])
    log("[build] harness built in %.1fs" % (time.time() - t0))


NODEBUG_BIN = os.path.join(HARNESS, "target", "nodebug", "vharness")


def build_harness_nodebug():
    """The same harness with debug assertions off (profile nodebug): a debug_assert of the library
    would otherwise turn a drifting counter into a panic before the drift can be observed."""
    env = dict(os.environ, CARGO_NET_OFFLINE="true")
    t0 = time.time()
    r = subprocess.run(["cargo", "build", "--offline", "--quiet", "--profile", "nodebug"], cwd=HARNESS, env=env,
                       stdout=subprocess.PIPE, stderr=subprocess.STDOUT, text=True)
    if r.returncode != 0:
        raise ToolError("harness build (debug assertions off) failed:\n" + r.stdout[-4000:])
    log("[build] harness with debug assertions off built in %.1fs" % (time.time() - t0))


ASAN_BIN = os.path.join(HARNESS, "target-asan", "x86_64-unknown-linux-gnu", "debug", "vharness")


def build_harness_asan():
    """The same harness built with AddressSanitizer (nightly toolchain, present offline)."""
    env = dict(os.environ, CARGO_NET_OFFLINE="true",
               RUSTFLAGS="-Zsanitizer=address --cfg mini_moka_verif --check-cfg cfg(mini_moka_verif)")
    t0 = time.time()
    r = subprocess.run(["cargo", "+nightly", "build", "--offline", "--quiet", "--target", "x86_64-unknown-linux-gnu",
                        "--target-dir", "target-asan"], cwd=HARNESS, env=env,
                       stdout=subprocess.PIPE, stderr=subprocess.STDOUT, text=True)
    if r.returncode != 0:
        raise ToolError("AddressSanitizer build of the harness failed:\n" + r.stdout[-3000:])
    log("[build] harness built with AddressSanitizer in %.1fs" % (time.time() - t0))


# ---------------------------------------------------------------------------
# TLC


def tla_val(v):
    if isinstance(v, bool):
        return "TRUE" if v else "FALSE"
    if isinstance(v, int):
        return str(v)
    if isinstance(v, str):
        return '"%s"' % v
    if isinstance(v, (set, frozenset, list, tuple)):
        return "{" + ", ".join(tla_val(x) for x in sorted(v, key=str)) + "}"
    raise ValueError(v)


def write_cfg(path, spec="Spec", constants=None, invariants=(), constraints=(), view=None,
              postcondition=None, properties=()):
    lines = ["SPECIFICATION %s" % spec]
    if view:
        lines.append("VIEW %s" % view)
    if constants:
        lines.append("CONSTANTS")
        for k, v in constants.items():
            lines.append("  %s = %s" % (k, tla_val(v)))
    for i in invariants:
        lines.append("INVARIANT %s" % i)
    for c in constraints:
        lines.append("CONSTRAINT %s" % c)
    for p in properties:
        lines.append("PROPERTY %s" % p)
    if postcondition:
        lines.append("POSTCONDITION %s" % postcondition)
    lines.append("CHECK_DEADLOCK FALSE")
    with open(path, "w") as f:
        f.write("\n".join(lines) + "\n")


def prepare_dir(d):
    if os.path.exists(d):
        shutil.rmtree(d)
    os.makedirs(d)
    for f in os.listdir(SPEC):
        if f.endswith(".tla"):
            shutil.copy(os.path.join(SPEC, f), d)


def run_tlc(wd, module, cfg, workers=8, timeout=600, env_extra=None, out="tlc.out", depth_first=False,
            xmx="8g", simulate=None):
    env = dict(os.environ)
    jopts = "-Xss1g"
    if depth_first:
        jopts += " -Dtlc2.tool.queue.IStateQueue=StateDeque"
    env["JAVA_TOOL_OPTIONS"] = jopts
    if env_extra:
        env.update(env_extra)
    meta = os.path.join(wd, "states-" + os.path.splitext(os.path.basename(cfg))[0])
    cmd = ["java", "-XX:+UseParallelGC", "-Xmx" + xmx, "-cp", TLA_CP, "tlc2.TLC",
           "-workers", str(workers), "-config", cfg, "-metadir", meta, "-noGenerateSpecTE"]
    if simulate:
        cmd += ["-simulate", simulate]
    cmd.append(module)
    outp = os.path.join(wd, out)
    t0 = time.time()
    with open(outp, "w") as f:
        try:
            r = subprocess.run(cmd, cwd=wd, env=env, stdout=f, stderr=subprocess.STDOUT, timeout=timeout)
            rc = r.returncode
        except subprocess.TimeoutExpired:
            rc = -9
    shutil.rmtree(meta, ignore_errors=True)
    return rc, outp, time.time() - t0


def parse_mc(outp):
    """Returns dict(states, distinct, ok, violated, error)."""
    res = {"generated": 0, "distinct": 0, "ok": False, "violated": None, "error": None}
    with open(outp, errors="replace") as f:
        txt = f.read()
    m = re.findall(r"(\d+) states generated, (\d+) distinct states found, (\d+) states left", txt)
    if m:
        res["generated"], res["distinct"] = int(m[-1][0]), int(m[-1][1])
        res["left"] = int(m[-1][2])
    if not m:
        m = re.findall(r"Progress\(\d+\) at .*?: ([\d,]+) states generated .*?, ([\d,]+) distinct", txt)
        if m:
            res["generated"], res["distinct"] = int(m[-1][0].replace(",", "")), int(m[-1][1].replace(",", ""))
    if "Model checking completed. No error has been found." in txt:
        res["ok"] = True
    m = re.search(r"Invariant (\w+) is violated", txt)
    if m:
        res["violated"] = m.group(1)
    m = re.search(r"Temporal properties were violated|Deadlock reached", txt)
    if m:
        res["violated"] = m.group(0)
    if not res["ok"] and not res["violated"]:
        m = re.search(r"Error: (.*)", txt)
        res["error"] = m.group(1) if m else "TLC did not complete"
    return res


def model_check(wd, name, module, constants, invariants, constraints=(), workers=8, timeout=600, view=None,
                properties=(), spec="Spec"):
    cfg = os.path.join(wd, name + ".cfg")
    write_cfg(cfg, spec=spec, constants=constants, invariants=invariants, constraints=constraints, view=view,
              properties=properties)
    rc, outp, wall = run_tlc(wd, module, cfg, workers=workers, timeout=timeout, out=name + ".out")
    r = parse_mc(outp)
    r["name"] = name
    r["wall_s"] = round(wall, 1)
    r["timeout"] = rc == -9
    r["out"] = outp
    log("[mc] %-28s %9d distinct %10d generated  %5.1fs %s" % (
        name, r["distinct"], r["generated"], wall,
        "ok" if r["ok"] else ("TIMEOUT" if r["timeout"] else "FAILED: %s" % (r["violated"] or r["error"]))))
    return r


# ---------------------------------------------------------------------------
# harness


def harness(args, timeout=600, check=True):
    r = subprocess.run([CURRENT_BIN[0]] + args, stdout=subprocess.PIPE, stderr=subprocess.PIPE, text=True, timeout=timeout)
    return r


def replay_file(beh, trace, only_bad=False, timeout=900):
    """Runs the behaviours of `beh` on the real code; survives crashes of the child process.
    Returns (summary, crashes) where crashes is a list of line numbers that killed the process."""
    if os.path.exists(trace):
        os.remove(trace)
    prog = trace + ".progress"
    total = {"behaviours": 0, "events": 0, "mismatches": [], "panics": []}
    crashes = []
    skip = 0
    while True:
        args = ["replay", beh, trace, "--progress", prog, "--skip", str(skip)]
        if only_bad:
            args.append("--only-bad")
        r = harness(args, timeout=timeout)
        if r.returncode == 0:
            s = json.loads(r.stdout.strip().splitlines()[-1])
            for k in ("behaviours", "events"):
                total[k] += s[k]
            total["mismatches"] += s["mismatches"]
            total["panics"] += s["panics"]
            break
        # the child died (signal / abort): the behaviour named in the progress file is the culprit
        try:
            line = int(open(prog).read().strip())
        except Exception:
            raise ToolError("harness failed before running anything:\n" + r.stderr[-2000:])
        crashes.append({"line": line, "rc": r.returncode, "stderr": r.stderr[-400:]})
        with open(trace, "a") as f:
            if r.returncode == 4:
                # the harness's watchdog: a call of this behaviour did not return
                with open(beh) as bf:
                    for i, l in enumerate(bf):
                        if i == line:
                            b = json.loads(l)
                            cj = dict(b["cfg"], ev="Config", id=b.get("id", line))
                            for k, d in (("init_cap", -1), ("via_new", False), ("lean", False), ("seed", 0)):
                                cj.setdefault(k, d)
                            f.write(json.dumps(cj) + "\n")
                            break
                f.write(json.dumps({"ev": "Timeout", "what": "a call did not return", "now": 0, "line": line}) + "\n")
            else:
                f.write(json.dumps({"ev": "Crash", "rc": r.returncode, "now": 0, "line": line}) + "\n")
        skip = line + 1
        if len(crashes) > 50:
            break
    if os.path.exists(prog):
        os.remove(prog)
    return total, crashes


def gen_behaviours(profile, seed, count, length, path):
    r = harness(["gen", profile, str(seed), str(count), str(length)])
    if r.returncode != 0:
        raise ToolError("gen failed: " + r.stderr[-2000:])
    with open(path, "w") as f:
        f.write(r.stdout)


# ---------------------------------------------------------------------------
# trace validation


SDEV = ("F7", "F12", "F15")   # deviations of the concurrent cache from the intended design still present in /repo


def trace_check(wd, name, trace, props, nkeys, layer_i=True, period=1280, timeout=900, dev=(), sdev=SDEV, quiet=False):
    """Validates a recorded trace file. Returns dict with viol (list of (prop,bid,line)),
    drift (list of (bid,line)), stats."""
    cfg = os.path.join(wd, name + ".cfg")
    write_cfg(cfg, constants={"NKeys": nkeys, "Batch": 100, "Period": period, "Dev": set(dev),
                              "CheckProps": set(props), "LayerI": layer_i,
                              # (the flush-point driver queues up to 64 records, most with an EntryInfo of their own)
                              "MaxInfo": 80 if "sync-flush" in name else max(12, 3 * nkeys), "SDev": set(sdev)},
              postcondition="Consumed")
    rc, outp, wall = run_tlc(wd, "TraceCheck.tla", cfg, workers=1, timeout=timeout, out=name + ".out",
                             depth_first=True, xmx="6g", env_extra={"TRACE": trace})
    txt = open(outp, errors="replace").read()
    res = {"viol": [], "drift": [], "stats": None, "wall_s": round(wall, 1), "out": outp}
    for m in re.finditer(r'<<"VIOL", "(C\d+)", (-?\d+), (\d+)>>', txt):
        res["viol"].append((m.group(1), int(m.group(2)), int(m.group(3))))
    for m in re.finditer(r'<<"DRIFT", (-?\d+), (\d+)>>', txt):
        res["drift"].append((int(m.group(1)), int(m.group(2))))
    m = re.search(r'<<"STATS", "(.*)">>', txt)
    if m:
        res["stats"] = json.loads(m.group(1).replace('\\"', '"'))
    done = "Model checking completed. No error has been found." in txt
    if rc == -9:
        raise ToolError("trace validation timed out (%s)" % outp)
    if not done or res["stats"] is None:
        m = re.search(r"Error: (.*)", txt)
        raise ToolError("trace validation failed (%s): %s" % (outp, m.group(1) if m else "no STATS line"))
    if not quiet:
        log("[trace] %-24s %6d events %4d behaviours  viol=%d drift=%d  %.1fs" % (
            name, res["stats"]["events"], res["stats"]["behaviours"], len(res["viol"]), len(res["drift"]), wall))
    return res


def trace_check_par(wd, name, trace, props, nkeys, layer_i=True, parts=8, min_events=1500, **kw):
    """trace_check on a trace split at behaviour boundaries into up to `parts` files validated by
    concurrent TLC runs (one worker each); line numbers refer to the whole trace."""
    with open(trace) as f:
        lines = f.readlines()
    starts = [i for i, l in enumerate(lines) if '"ev":"Config"' in l or '"ev": "Config"' in l]
    # up to `parts` runs at a time; no part much longer than 40 000 events (TLC holds a part in memory)
    n = max(1, min(parts, len(lines) // max(1, min_events)), -(-len(lines) // 40000))
    if n <= 1 or len(starts) < 2:
        return trace_check(wd, name, trace, props, nkeys, layer_i=layer_i, **kw)
    target = len(lines) / n
    cuts = [0]
    for st in starts[1:]:
        if st - cuts[-1] >= target and len(cuts) < n:
            cuts.append(st)
    cuts.append(len(lines))
    import concurrent.futures
    jobs = []
    for j in range(len(cuts) - 1):
        part = "%s.part%d" % (trace, j)
        with open(part, "w") as g:
            g.writelines(lines[cuts[j]:cuts[j + 1]])
        jobs.append((j, part, cuts[j]))
    def one(job):
        j, part, off = job
        return j, off, trace_check(wd, "%s_p%d" % (name, j), part, props, nkeys, layer_i=layer_i, quiet=True, **kw)
    t0 = time.time()
    try:
        with concurrent.futures.ThreadPoolExecutor(max_workers=min(parts, len(jobs))) as ex:
            outs = list(ex.map(one, jobs))
    finally:
        for _, part, _ in jobs:
            if os.path.exists(part):
                os.remove(part)
    res = {"viol": [], "drift": [], "stats": None, "wall_s": round(time.time() - t0, 1), "out": None}
    for j, off, r in sorted(outs, key=lambda x: x[0]):
        res["viol"] += [(p_, b, l + off) for (p_, b, l) in r["viol"]]
        res["drift"] += [(b, l + off) for (b, l) in r["drift"]]
        st = r["stats"]
        if res["stats"] is None:
            res["stats"] = st
        else:
            for k, v in st.items():
                if isinstance(v, dict):
                    for kk, vv in v.items():
                        res["stats"][k][kk] = res["stats"][k].get(kk, 0) + vv
                else:
                    res["stats"][k] += v
        if os.path.exists(r["out"]):
            os.remove(r["out"])
    log("[trace] %-24s %6d events %4d behaviours  viol=%d drift=%d  %.1fs (%d parallel parts)" % (
        name, res["stats"]["events"], res["stats"]["behaviours"], len(res["viol"]), len(res["drift"]),
        res["wall_s"], len(jobs)))
    return res


def read_lines(path):
    with open(path) as f:
        return [json.loads(l) for l in f if l.strip()]


def behaviour_events(trace_lines, line_no):
    """The events of the behaviour containing 1-based line `line_no`, and the index within it."""
    i = line_no - 1
    start = i
    while start > 0 and trace_lines[start].get("ev") != "Config":
        start -= 1
    end = i + 1
    while end < len(trace_lines) and trace_lines[end].get("ev") != "Config":
        end += 1
    return trace_lines[start:end], i - start


def slim_event(e):
    s = e.get("snap") or {}
    out = {k: v for k, v in e.items() if k not in ("snap", "mx")}
    if s:
        out["snap"] = {k: s.get(k) for k in ("res", "ao", "wo", "ec", "ws", "fq", "va", "rlen", "wlen", "lk", "lv")
                       if k in s}
    return out


def write_replay(prop, cfg, ops, events, index, source, extra=None):
    os.makedirs(REPLAYS, exist_ok=True)
    body = {"property": prop, "cfg": cfg, "ops": ops, "rejected_event_index": index,
            "rejected_event": slim_event(events[index]) if events and 0 <= index < len(events) else None,
            "source": source}
    if extra:
        body.update(extra)
    h = hashlib.sha1(json.dumps([prop, cfg, ops], sort_keys=True).encode()).hexdigest()[:12]
    path = os.path.join(REPLAYS, "%s-%s.json" % (prop, h))
    with open(path, "w") as f:
        json.dump(body, f, indent=1)
    return path


# ---------------------------------------------------------------------------
# known findings


def load_findings():
    p = os.path.join(ROOT, "known_findings.json")
    if not os.path.exists(p):
        return []
    return json.load(open(p)).get("findings", [])


# ---------------------------------------------------------------------------
# evidence


def write_evidence(prop, tier, seed, level, coverage, assumptions, wall, violations):
    os.makedirs(EVID, exist_ok=True)
    ev = {"property_id": prop, "tier": tier, "seed": seed, "level": level, "coverage": coverage,
          "assumptions": assumptions, "wall_s": round(wall, 1), "violations": violations}
    with open(os.path.join(EVID, prop + ".json"), "w") as f:
        json.dump(ev, f, indent=1)


def main(argv):
    from plans import run_property, run_replay
    if not argv:
        print(__doc__)
        return 2
    try:
        if argv[0] == "setup":
            build_harness()
            build_harness_nodebug()
            wd = os.path.join(WORK, "setup")
            prepare_dir(wd)
            r = model_check(wd, "smoke", "MC_Unsync.tla",
                            {"NKeys": 2, "Batch": 100, "Period": 6, "Dev": set(), "Slice": "cap2",
                             "Vals": {1}, "Weights": {1}, "MaxT": 2, "CheckProps": {"C01"}, "Emit": False,
                             "MaxDepth": 0},
                            ["Ok", "NoPanic"], constraints=["Stop"], workers=4, timeout=120)
            shutil.rmtree(wd, ignore_errors=True)
            if not r["ok"]:
                raise ToolError("TLC smoke test failed")
            print("setup ok")
            return 0
        if argv[0] == "replay":
            return run_replay(argv[1])
        if argv[0] == "selftest":
            # every historical defect, switched on in Layer I, must be rejected by its monitor in TLC
            return subprocess.run([sys.executable, os.path.join(ROOT, "lib", "selftest.py")]).returncode
        prop = argv[0]
        tier = os.environ.get("VERIF_TIER", "quick")
        seed = int(os.environ.get("VERIF_SEED", "1"))
        i = 1
        while i < len(argv):
            if argv[i] == "--tier":
                tier = argv[i + 1]
                i += 1
            elif argv[i] == "--seed":
                seed = int(argv[i + 1])
                i += 1
            i += 1
        return run_property(prop, tier, seed)
    except ToolError as e:
        log("TOOL ERROR: %s" % e)
        return 2
