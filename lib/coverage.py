#!/usr/bin/env python3
"""coverage.py [quick|thorough]: runs the model-checking and emission slices with TLC's -coverage and
lists the expressions of the Layer I modules (UnsyncCache, SyncCache, SyncConc, Sketch, Deque) that no
slice ever evaluated. A never-evaluated branch of Layer I is behaviour the bounded models do not reach:
the monitors were never exercised on it (vacuity) and no replay was generated from it."""
import os, re, subprocess, sys, json, time
sys.path.insert(0, os.path.dirname(os.path.abspath(__file__)))
import vcheck as V, plans as P

MODS = ("UnsyncCache", "SyncCache", "SyncConc", "Sketch", "Deque")


def run(wd, name, module, consts, constraints, view, timeout, spec=None):
    cfg = os.path.join(wd, name + ".cfg")
    V.write_cfg(cfg, constants=consts, constraints=constraints, view=view, **({"spec": spec} if spec else {}))
    env = dict(os.environ)
    env["JAVA_TOOL_OPTIONS"] = "-Xss1g"
    meta = os.path.join(wd, "states-" + name)
    outp = os.path.join(wd, name + ".cov")
    cmd = ["java", "-XX:+UseParallelGC", "-Xmx8g", "-cp", V.TLA_CP, "tlc2.TLC", "-workers", "8", "-coverage", "1",
           "-config", cfg, "-metadir", meta, "-noGenerateSpecTE", module]
    t0 = time.time()
    with open(outp, "w") as f:
        try:
            subprocess.run(cmd, cwd=wd, env=env, stdout=f, stderr=subprocess.STDOUT, timeout=timeout)
        except subprocess.TimeoutExpired:
            pass
    import shutil
    shutil.rmtree(meta, ignore_errors=True)
    print("[cov] %-28s %.0fs" % (name, time.time() - t0), flush=True)
    return outp


def parse(outp, counts):
    # the last coverage dump of the file wins for each location
    pat = re.compile(r"line (\d+), col (\d+) to line (\d+), col (\d+) of module (\w+)>?: (\d+)")
    last = {}
    with open(outp, errors="replace") as f:
        for line in f:
            m = pat.search(line)
            if m and m.group(5) in MODS:
                key = (m.group(5), int(m.group(1)), int(m.group(2)), int(m.group(3)), int(m.group(4)))
                last[key] = int(m.group(6))
    for k, n in last.items():
        counts[k] = counts.get(k, 0) + n


def main():
    tier = sys.argv[1] if len(sys.argv) > 1 else "quick"
    wd = os.path.join(V.WORK, "coverage-" + tier)
    V.prepare_dir(wd)
    counts = {}
    table = P.Q if tier == "quick" else P.T
    for n, c in table.items():
        if c["module"] == "MC_Sync.tla":
            o = run(wd, "mc_" + n, c["module"], P.constants_smc(c, ["C03", "C10"], dev=()), ["Stop", "Depth"], "View", 900)
        else:
            o = run(wd, "mc_" + n, c["module"], P.constants_mc(c, ["C03", "C10"]), ["Stop"], None, 900)
        parse(o, counts)
        os.remove(o)
    rs = (P.RQ if tier == "quick" else P.RT)
    for i, c in enumerate(rs):
        if c["module"] == "MC_Sync.tla":
            o = run(wd, "r%d_%s" % (i, c["slice"]), c["module"], P.constants_smc(c, [], emit=False, real=True), ["Depth"], "View", 900)
        else:
            o = run(wd, "r%d_%s" % (i, c["slice"]), c["module"], P.constants_mc(c, [], emit=False, depth=c["depth"], period=1280), ["Depth"], "View", 900)
        parse(o, counts)
        os.remove(o)
    for prog in (P.CONC_QUICK if tier == "quick" else list(P.CONC_PROGS)):
        o = run(wd, "conc_" + prog, "MC_Conc.tla", P.conc_constants(prog, False, True, V.SDEV), [], "View", 900)
        parse(o, counts)
        os.remove(o)
    json.dump([[list(k), n] for k, n in counts.items()], open(os.path.join(wd, "counts.json"), "w"))
    # TLC lists only what it evaluated. A source line of a Layer I module counts as reached when some
    # expression lying wholly on that line was evaluated; code lines never reached are reported.
    hit = {}
    for (m, l1, c1, l2, c2), n in counts.items():
        if l1 == l2 and n > 0:
            hit.setdefault(m, set()).add(l1)
    out = []
    nlines = 0
    for m in MODS:
        if m not in hit:
            continue
        src = open(os.path.join(V.ROOT, "spec", m + ".tla")).read().splitlines()
        incomment = False
        for i, line in enumerate(src, 1):
            t = line.strip()
            if "(*" in t and "*)" not in t:
                incomment = True
                continue
            if incomment:
                if "*)" in t:
                    incomment = False
                continue
            code = t.split("\\*")[0].strip()
            if not code or code.startswith(("(*", "----", "====", "EXTENDS", "CONSTANT", "VARIABLE", "RECURSIVE", "LOCAL")):
                continue
            # a definition head or a purely structural line carries no expression of its own
            if code.endswith("==") or code in ("IN", "LET", "ELSE", "THEN") or not any(ch.isalnum() for ch in code):
                continue
            nlines += 1
            if i not in hit[m]:
                out.append({"module": m, "line": i, "text": code[:110]})
    keep = out
    rep = {"tier": tier, "evaluated_locations": len(counts), "code_lines": nlines, "never_reached": len(keep), "lines": out}
    json.dump(rep, open(os.path.join(V.ROOT, "evidence", "spec_coverage_%s.json" % tier), "w"), indent=1)
    for o in out:
        print("%-12s %4d  %s" % (o["module"], o["line"], o["text"]))
    print("%d evaluated locations, %d code lines, %d never reached" % (len(counts), nlines, len(keep)))


main()
