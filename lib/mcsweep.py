#!/usr/bin/env python3
"""mcsweep.py <tier> [property ...]: only the model-checking stage of the sequential checks (Layer I with
all deviations off under the property's monitor), one line per slice. TLC only; /repo is not touched.
Used to try out the thorough tier's exhaustive slices ahead of a full thorough run."""
import os, sys, time
sys.path.insert(0, os.path.dirname(os.path.abspath(__file__)))
import vcheck as V, plans as P

tier = sys.argv[1]
props = sys.argv[2:] or list(P.SEQ_PLANS)
bad = 0
for prop in props:
    ctx = P.Ctx(prop, tier, 1)
    ctx.wd = os.path.join(V.WORK, "mcsweep-%s-%s" % (prop, tier))
    V.prepare_dir(ctx.wd)
    t0 = time.time()
    P.stage_mc(ctx, P.SEQ_PLANS[prop][tier]["mc"])
    for m in ctx.mc:
        print("MC %s %s %-18s ok=%s timeout=%s distinct=%d wall=%.0fs" % (prop, tier, m["name"], m["ok"], m["timeout"], m["distinct"], m["wall_s"]), flush=True)
    for (name, what, out) in ctx.model_failures:
        bad += 1
        print("MODEL-FAILURE %s %s: %s (%s)" % (prop, name, what, out), flush=True)
    print("DONE %s %s in %.0fs, notes=%s" % (prop, tier, time.time() - t0, ctx.notes), flush=True)
sys.exit(2 if bad else 0)
