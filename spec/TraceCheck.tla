----------------------------- MODULE TraceCheck -----------------------------
(* Trace validation: a trace recorded from the real code (NDJSON, named by   *)
(* the environment variable TRACE) is walked event by event.                 *)
(*   - every monitor in CheckProps judges every event (the verdict);         *)
(*   - Layer I (UnsyncCache) is run as an interpreter beside the code and    *)
(*     the full observable projection of its state is compared with the      *)
(*     recorded snapshot after every call (conformance; a mismatch is DRIFT).*)
(* The file may hold many behaviours; each starts with a Config event.       *)
(* Findings are printed as tuples and collected by the orchestrator.         *)
EXTENDS UnsyncCache, Json, IOUtils

CONSTANTS CheckProps,   \* monitors to evaluate
          LayerI,       \* TRUE: also run Layer I conformance
          MaxInfo, SDev \* parameters of the concurrent cache's Layer I

S == INSTANCE SyncCache WITH RLog <- 384, WLog <- 384, Flush <- 64, MaxRepeats <- 4, SBatch <- 500,
                             Dev <- SDev

M == INSTANCE Monitors

Rec == ndJsonDeserialize(IOEnv.TRACE)

VARIABLES l,      \* next line of the trace
          s,      \* Layer I state (single-threaded cache)
          ss,     \* Layer I state (concurrent cache, sequential client)
          hs,     \* monitor state
          pre,    \* snapshot before the next event
          failed, \* monitors that already rejected an event of this behaviour
          li,     \* "on": Layer I is tracking; "off": not applicable or drifted
          bid,    \* id of the current behaviour
          stats   \* counters

vars == <<l, s, ss, hs, pre, failed, li, bid, stats>>

DummyCfg == [kind |-> "unsync", cap |-> None, ttl |-> None, tti |-> None, weigher |-> FALSE,
             hconst |-> FALSE, hasher |-> "id", nkeys |-> NKeys]

CfgOf(e) == [kind |-> e.kind, cap |-> e.cap, ttl |-> e.ttl, tti |-> e.tti, weigher |-> e.weigher,
             hconst |-> (e.hasher = "const"), hasher |-> e.hasher, nkeys |-> e.nkeys]

Stats0 == [events |-> 0, behaviours |-> 0, conform |-> 0, drift |-> 0,
           nt |-> [p \in CheckProps |-> 0], viol |-> [p \in CheckProps |-> 0]]

Init == /\ l = 1 /\ s = UInit(DummyCfg) /\ ss = S!SInit(DummyCfg) /\ hs = M!HInit(DummyCfg) /\ pre = M!EmptySnap
        /\ failed = {} /\ li = "off" /\ bid = -1 /\ stats = Stats0

\* the call recorded in event e, as Layer I reads it
OpOf(e) ==
    CASE e.ev = "Insert" -> [op |-> "Insert", k |-> e.k, v |-> e.v, w |-> e.w]
      [] e.ev \in {"Get", "Contains", "Invalidate"} -> [op |-> e.ev, k |-> e.k]
      [] e.ev = "InvalidateIf" -> [op |-> "InvalidateIf", p |-> <<e.pk, e.vm, e.vr>>]
      [] e.ev = "Advance" -> [op |-> "Advance", d |-> e.d]
      [] OTHER -> [op |-> e.ev]

ProjRes(res) == [i \in DOMAIN res |-> [k |-> res[i].k, v |-> res[i].v, w |-> res[i].w, tw |-> res[i].tw,
                                       la |-> res[i].la, lm |-> res[i].lm]]
ProjSnap(sn) == [res |-> ProjRes(sn.res), ao |-> sn.ao, wo |-> sn.wo, ec |-> sn.ec, ws |-> sn.ws,
                 fq |-> sn.fq, on |-> sn.sk.on, aged |-> sn.sk.aged]
SameResult(m, e) ==
    CASE e.ev \in {"Get", "Contains"} -> m.r = e.r
      [] e.ev = "Iter" -> m.items = e.items
      [] OTHER -> TRUE

ULayerOps == {"Insert", "Get", "Contains", "Invalidate", "InvalidateAll", "InvalidateIf",
              "Iter", "Advance"}
SLayerOps == {"Insert", "Get", "Contains", "Invalidate", "InvalidateAll", "Iter", "Advance", "Sync"}

SProjRes(res) == [i \in DOMAIN res |-> [k |-> res[i].k, v |-> res[i].v, w |-> res[i].w, tw |-> res[i].tw,
                                        la |-> res[i].la, lm |-> res[i].lm,
                                        adm |-> res[i].adm, dirty |-> res[i].dirty]]
SProjSnap(sn) == [res |-> SProjRes(sn.res), ao |-> sn.ao, wo |-> sn.wo, ec |-> sn.ec, ws |-> sn.ws,
                  fq |-> sn.fq, on |-> sn.sk.on, aged |-> sn.sk.aged, va |-> sn.va,
                  rlen |-> sn.rlen, wlen |-> sn.wlen]

Bump(st, f) == [st EXCEPT ![f] = @ + 1]

Next ==
    /\ l <= Len(Rec)
    /\ l' = l + 1
    /\ LET e == Rec[l] IN
       IF e.ev = "Config"
       THEN LET c == CfgOf(e) IN
            /\ hs' = M!HInit(c)
            /\ pre' = M!InitSnap(c)
            /\ failed' = {}
            /\ bid' = e.id
            /\ IF LayerI /\ c.hasher \in {"id", "const"} /\ c.nkeys = NKeys
               THEN IF c.kind = "unsync"
                    THEN s' = UInit(c) /\ ss' = S!SInit(DummyCfg) /\ li' = "on"
                    ELSE s' = UInit(DummyCfg) /\ ss' = S!SInit(c) /\ li' = "son"
               ELSE s' = UInit(DummyCfg) /\ ss' = S!SInit(DummyCfg) /\ li' = "off"
            /\ stats' = Bump(stats, "behaviours")
            /\ (l = Len(Rec) => PrintT(<<"STATS", ToJson(stats')>>))
       ELSE
         LET judged == CheckProps \ failed
             rejecting == {p \in judged : ~M!AllowedBy(p, hs, pre, e)}
             nontriv == {p \in judged : M!NonTrivialBy(p, hs, pre, e)}
             \* Layer I beside the code
             canStep == li = "on" /\ e.ev \in ULayerOps
             r == UDo(s, OpOf(e))
             agrees == canStep /\ SameResult(r.ev, e) /\ ProjSnap(USnap(r.s)) = ProjSnap(e.snap)
                       /\ ~r.s.panic
             \* the concurrent cache
             canStepS == li = "son" /\ e.ev \in SLayerOps
             \* an iterator's owner that called invalidate_all() after the clock step (xa)
             rs == IF e.ev = "Advance" /\ "xa" \in DOMAIN e
                   THEN [S!SDo(S!SDo(ss, OpOf(e)).s, [op |-> "InvalidateAll"]) EXCEPT !.ev = S!SDo(ss, OpOf(e)).ev]
                   ELSE S!SDo(ss, OpOf(e))
             agreesS == canStepS /\ SameResult(rs.ev, e) /\ SProjSnap(S!SSnap(rs.s)) = SProjSnap(e.snap)
                        /\ rs.s.crash = ""
             drifted == \/ li = "on" /\ ((canStep /\ ~agrees) \/ e.ev \in {"Panic", "Crash"})
                        \/ li = "son" /\ ((canStepS /\ ~agreesS) \/ e.ev \in {"Panic", "Crash"})
             st1 == [stats EXCEPT !.events = @ + 1,
                                  !.conform = IF agrees \/ agreesS THEN @ + 1 ELSE @,
                                  !.drift = IF drifted THEN @ + 1 ELSE @,
                                  !.nt = [p \in CheckProps |-> IF p \in nontriv THEN @[p] + 1 ELSE @[p]],
                                  !.viol = [p \in CheckProps |-> IF p \in rejecting THEN @[p] + 1 ELSE @[p]]]
         IN /\ \A p \in rejecting : PrintT(<<"VIOL", p, bid, l>>)
            /\ (drifted => PrintT(<<"DRIFT", bid, l>>))
            /\ failed' = failed \cup rejecting
            /\ hs' = M!HUpdate(CheckProps, hs, pre, e)
            /\ pre' = IF M!IsOp(e) THEN e.snap ELSE pre
            /\ s' = IF canStep /\ agrees THEN r.s ELSE s
            /\ ss' = IF canStepS /\ agreesS THEN S!Canon(rs.s) ELSE ss
            /\ li' = IF drifted THEN "off" ELSE li
            /\ bid' = bid
            /\ stats' = st1
            /\ (l = Len(Rec) => PrintT(<<"STATS", ToJson(st1)>>))

Spec == Init /\ [][Next]_vars

\* POSTCONDITION: the whole file was consumed
Consumed == TLCGet("stats").diameter = Len(Rec) + 1

=============================================================================
