------------------------------- MODULE MC_Sync -------------------------------
(* Layer I of the concurrent cache driven by one sequential client, composed *)
(* with the property monitors: every history over a small universe including *)
(* every placement of sync() and both housekeeping regimes.                  *)
EXTENDS SyncCache, Json

CONSTANTS Slice, Vals, Weights, MaxT, CheckProps, Emit, MaxDepth

M == INSTANCE Monitors

VARIABLES s, hs, bad, h

vars == <<s, hs, bad, h>>
View == <<s, hs, bad>>
\* for depth-bounded model checking: with the length of the history in the fingerprint a state is
\* explored at every depth at which it occurs, so the bound cuts exactly (every history shorter
\* than the bound is judged, whatever the order in which TLC's workers find the states)
ViewD == <<s, hs, bad, Len(h)>>

Cf(cap, ttl, tti, wg, hc) ==
    [kind |-> "sync", cap |-> cap, ttl |-> ttl, tti |-> tti, weigher |-> wg,
     hconst |-> hc, hasher |-> IF hc THEN "const" ELSE "id", nkeys |-> NKeys]

CfgSlices ==
    [cap_unit   |-> {Cf(c, None, None, FALSE, FALSE) : c \in {None, 0, 1, 2}},
     cap1       |-> {Cf(1, None, None, FALSE, FALSE)},
     cap2       |-> {Cf(2, None, None, FALSE, FALSE)},
     nocap      |-> {Cf(None, None, None, FALSE, FALSE)},
     cap_weight |-> {Cf(c, None, None, TRUE, FALSE) : c \in {1, 2}},
     cap2_w     |-> {Cf(2, None, None, TRUE, FALSE)},
     cap_const  |-> {Cf(c, None, None, wg, TRUE) : c \in {1, 2}, wg \in {FALSE, TRUE}},
     expiry     |-> {Cf(None, ttl, tti, FALSE, FALSE) : ttl \in {None, 0, 2}, tti \in {None, 2}},
     ttl_tti    |-> {Cf(None, 2, 2, FALSE, FALSE)},
     ttl2       |-> {Cf(None, 2, None, FALSE, FALSE)},
     tti2       |-> {Cf(None, None, 2, FALSE, FALSE)},
     cap1_ttl   |-> {Cf(1, 2, None, FALSE, FALSE)},
     cap2_tti   |-> {Cf(2, None, 2, FALSE, FALSE)},
     cap2_ttl_tti_w |-> {Cf(2, 2, 2, TRUE, FALSE)}]

Cfgs == CfgSlices[Slice]

Ops(st) ==
    [op : {"Insert"}, k : Keys, v : Vals, w : IF st.cfg.weigher THEN Weights ELSE {1}]
    \cup [op : {"Get", "Contains", "Invalidate"}, k : Keys]
    \cup [op : {"InvalidateAll", "Iter", "Sync"}]
    \cup [op : {"Advance"}, d : {d \in {1, 2} : st.now + d <= MaxT}]

OpJson(o) ==
    CASE o.op = "Insert" -> [op |-> "Insert", k |-> o.k, v |-> o.v, w |-> o.w]
      [] o.op \in {"Get", "Contains", "Invalidate"} -> [op |-> o.op, k |-> o.k]
      [] o.op = "Advance" -> [op |-> "Advance", d |-> o.d]
      [] OTHER -> [op |-> o.op]

CfgJson(c) == [kind |-> "sync", cap |-> c.cap, ttl |-> c.ttl, tti |-> c.tti,
               weigher |-> c.weigher, hasher |-> c.hasher, nkeys |-> c.nkeys]

\* what the replay compares with the real cache: everything except the live-object counts,
\* which the model states for quiescent points only
Expected(e) == [e EXCEPT !.snap = [f \in DOMAIN e.snap \ {"lk", "lv"} |-> e.snap[f]]]

\* C15 on Layer I: contains_key and iter leave every variable unchanged
Pure(o, st, st2) == o.op \in {"Contains", "Iter"} => Canon(st2) = Canon([st EXCEPT !.aged = FALSE])

Init == /\ \E c \in Cfgs : s = SInit(c) /\ hs = M!HInit(c)
        /\ bad = {}
        /\ h = <<>>

Next == \E o \in Ops(s) :
          LET r == SDo(s, o)
              e == SEventOf(r)
              pre == SSnap(s)
          IN /\ s' = Canon(r.s)
             /\ bad' = {p \in CheckProps : ~M!AllowedBy(p, hs, pre, e)}
                       \cup (IF "C15" \in CheckProps /\ ~Pure(o, s, r.s) THEN {"C15"} ELSE {})
             /\ hs' = IF CheckProps \ {"C15"} = {} THEN hs ELSE M!HUpdate(CheckProps \ {"C15"}, hs, pre, e)
             /\ h' = IF Emit \/ MaxDepth > 0 THEN Append(h, OpJson(o)) ELSE h
             /\ (Emit => PrintT(<<"EDGE", ToJson([cfg |-> CfgJson(s.cfg), ops |-> h', last |-> Expected(e)])>>))

Spec == Init /\ [][Next]_vars

Ok == bad = {}
NoPanic == s.crash = ""
Stop == bad = {} /\ s.crash = ""
Depth == Len(h) < MaxDepth

=============================================================================
