------------------------------ MODULE Monitors ------------------------------
(* Layer P: the property monitors.  A monitor observes events (an API call   *)
(* with its arguments and result, the clock reading, and the read-only       *)
(* snapshot taken after the call) and says whether the event is compatible   *)
(* with the property given everything seen before.  It knows nothing about   *)
(* how the cache works inside.                                               *)
(*                                                                           *)
(*   hs    the history summary (monitor state)                               *)
(*   pre   the snapshot before the event (post of the previous event)        *)
(*   e     the event; e.snap is the snapshot after it                        *)
(*                                                                           *)
(* Allowed_Cxx(hs, pre, e) is the verdict of property Cxx on e;              *)
(* NT_Cxx(hs, pre, e) says whether the event exercised the property (used    *)
(* only to count non-trivial checks); HUpdate(hs, pre, e) advances the       *)
(* summary.  Event shapes are those written by the harness (JSON).           *)
EXTENDS Common, TLC

-----------------------------------------------------------------------------
(* Snapshot helpers                                                          *)

EmptySnap == [res |-> <<>>, ao |-> <<>>, wo |-> <<>>, ec |-> 0, ws |-> 0, fq |-> <<>>,
              sk |-> [on |-> FALSE, aged |-> FALSE], va |-> None, rlen |-> 0, wlen |-> 0,
              it |-> <<>>, lk |-> 0, lv |-> 0, dd |-> 0]

InitSnap(cfg) == [EmptySnap EXCEPT !.fq = [k \in 1..cfg.nkeys |-> 0]]

KeysIn(res) == {res[i].k : i \in DOMAIN res}
Ent(res, k) == res[CHOOSE i \in DOMAIN res : res[i].k = k]
SumW(res) == SeqSum([i \in DOMAIN res |-> res[i].w])
\* w is the weight the implementation has stored for the entry, tw the weight of the value it
\* holds now (the weigher applied to it): "current weights" in C04 / C10 are the latter
TW(r) == IF "tw" \in DOMAIN r THEN r.tw ELSE r.w
SumTW(res) == SeqSum([i \in DOMAIN res |-> TW(res[i])])
HasF(r, f) == f \in DOMAIN r
Quiescent(snap) == snap.rlen = 0 /\ snap.wlen = 0

-----------------------------------------------------------------------------
(* The history summary                                                       *)
(*   last[k]  what the history says about key k: p: inserted at least once;  *)
(*            v, w, t: value, weight and clock reading of the latest insert; *)
(*            dead: invalidated since; amb: an invalidate_all at the same    *)
(*            reading as the insert (concurrent cache: either outcome is     *)
(*            allowed); acc: latest insert/update/successful get; accLo: the *)
(*            part of acc the implementation is obliged to honour            *)
(*   within   total live weight has never exceeded max_capacity (C03)        *)
(*   rec      residents from least to most recently used (C12, C13)          *)
(*   vis      C07: the keys contains_key has reported present since the last *)
(*            other call at this clock reading                               *)
(*   inv      C07: the invalidation call under observation                   *)
(*   pend     concurrent cache, C03/C04: an insert awaiting its sync()       *)
(*   growth   concurrent cache, C04: weight added by in-place updates since  *)
(*            the last quiescent point                                       *)

NoLast == [p |-> FALSE, v |-> 0, w |-> 0, t |-> 0, dead |-> FALSE, amb |-> FALSE,
           acc |-> 0, accLo |-> 0]
NoInv == [on |-> FALSE, targeted |-> {}, amb |-> {}, pre |-> {}, now |-> 0, settled |-> FALSE]
NoPend == [on |-> FALSE, k |-> 0, v |-> 0, w |-> 0, fits |-> FALSE, fresh |-> FALSE,
           keep |-> {}, now |-> 0, pre |-> EmptySnap, rec |-> <<>>]
\* C13: an insert of a new key issued at a quiescent point, and the keys invalidated between it
\* and the sync() that applies the whole batch
NoPend2 == [on |-> FALSE, gone |-> {}, p |-> NoPend]

HInit(cfg) ==
    [cfg |-> cfg, last |-> [k \in 1..cfg.nkeys |-> NoLast], within |-> TRUE,
     rec |-> <<>>, vis |-> {}, visnow |-> 0,
     inv |-> NoInv, pend |-> NoPend, pend2 |-> NoPend2, growth |-> 0,
     \* concurrent cache: every state-changing call so far was followed by sync() ("eager" use);
     \* await: such a call has not been followed by its sync() yet; nget / napplied: get calls
     \* made and read records applied (C14)
     \* concurrent cache, C12: the recency order as maintenance has built it, from the maintenance
     \* events alone (mrec)
     mrec |-> <<>>,
     \* concurrent cache, C04: the excess over max_capacity at the last quiescent sync()
     exq |-> 0,
     eager |-> TRUE, await |-> FALSE, nget |-> 0, napplied |-> 0,
     anyinv |-> FALSE]     \* C07: some invalidation call has been made

HKeys(hs) == 1..hs.cfg.nkeys
IsSync(hs) == hs.cfg.kind = "sync"

TtlOk(hs, k, now) == hs.cfg.ttl = None \/ now < hs.last[k].t + hs.cfg.ttl
\* surely live: every implementation satisfying the properties must return it
RefLive(hs, k, now) ==
    /\ hs.last[k].p /\ ~hs.last[k].dead /\ ~hs.last[k].amb
    /\ TtlOk(hs, k, now)
    /\ (hs.cfg.tti = None \/ now < hs.last[k].accLo + hs.cfg.tti)
\* possibly live: no implementation may return it otherwise
RefMaybe(hs, k, now) ==
    /\ hs.last[k].p /\ ~hs.last[k].dead
    /\ TtlOk(hs, k, now)
    /\ (hs.cfg.tti = None \/ now < hs.last[k].acc + hs.cfg.tti)

LiveWeight(hs, now) ==
    SetSum({k \in HKeys(hs) : RefMaybe(hs, k, now)}, [k \in HKeys(hs) |-> hs.last[k].w])

ExcessOf(hs, snap) == IF hs.cfg.cap = None THEN 0 ELSE SatSub(SumW(snap.res), hs.cfg.cap)
ExcessT(hs, snap) == IF hs.cfg.cap = None THEN 0 ELSE SatSub(SumTW(snap.res), hs.cfg.cap)

IsLookupHit(e) == (e.ev = "Get" /\ e.r # None) \/ (e.ev = "Contains" /\ e.r = TRUE)
HasPrelude(hs, e) == ~IsSync(hs) /\ e.ev \in {"Get", "Contains", "Insert", "Invalidate"}
IsOp(e) == e.ev \in {"Insert", "Get", "Contains", "Invalidate", "InvalidateAll",
                     "InvalidateIf", "Iter", "Advance", "Sync"}

\* which keys an invalidation event targets, judged on the history
Targeted(hs, e) ==
    CASE e.ev = "Invalidate" -> {e.k}
      [] e.ev = "InvalidateAll" ->
            IF IsSync(hs) THEN {k \in HKeys(hs) : hs.last[k].p /\ hs.last[k].t < e.now}
            ELSE HKeys(hs)
      [] e.ev = "InvalidateIf" ->
            {k \in HKeys(hs) : hs.last[k].p /\ ~hs.last[k].dead /\
                 (k \in Range(e.pk) \/ (e.vm > 0 /\ hs.last[k].v % e.vm = e.vr))}
      [] OTHER -> {}
\* keys whose fate an invalidate_all at an equal clock reading leaves open
Ambiguous(hs, e) ==
    IF e.ev = "InvalidateAll" /\ IsSync(hs)
    THEN {k \in HKeys(hs) : hs.last[k].p /\ hs.last[k].t = e.now} ELSE {}

-----------------------------------------------------------------------------
(* Expected capacity evictions (C04, C12, C13), computed from the history's  *)
(* recency order and the weights the implementation holds.                   *)

\* residents in recency order that are live at the event's clock reading
LiveOrder(hs, pre, now) ==
    SelectSeq(hs.rec, LAMBDA k : k \in KeysIn(pre.res) /\ RefLive(hs, k, now))
WFun(hs, pre) == [k \in HKeys(hs) |-> IF k \in KeysIn(pre.res) THEN Ent(pre.res, k).w ELSE 0]
OrderW(hs, pre, q) == SeqSum([i \in DOMAIN q |-> WFun(hs, pre)[q[i]]])

\* what a call that starts by restoring the bound must remove first
Excess(hs, pre, now) ==
    IF hs.cfg.cap = None THEN 0
    ELSE SatSub(OrderW(hs, pre, LiveOrder(hs, pre, now)), hs.cfg.cap)
P1Len(hs, pre, now) ==
    ShortestPrefix(LiveOrder(hs, pre, now), WFun(hs, pre), Excess(hs, pre, now), 0, 0)
Order2(hs, pre, now) ==
    LET q == LiveOrder(hs, pre, now) n == P1Len(hs, pre, now)
    IN IF n > Len(q) THEN <<>> ELSE SubSeq(q, n + 1, Len(q))

\* an insert of a key that is not (or no longer) resident and has no room
IsContest(hs, pre, e) ==
    /\ e.ev = "Insert" /\ hs.cfg.cap # None
    /\ ~InSeq(Order2(hs, pre, e.now), e.k)
    /\ OrderW(hs, pre, Order2(hs, pre, e.now)) + e.w > hs.cfg.cap
    /\ e.w <= hs.cfg.cap
P2Len(hs, pre, e) ==
    ShortestPrefix(Order2(hs, pre, e.now), WFun(hs, pre), e.w, 0, 0)
P2Exists(hs, pre, e) == P2Len(hs, pre, e) <= Len(Order2(hs, pre, e.now))
P2(hs, pre, e) == Prefix(Order2(hs, pre, e.now), P2Len(hs, pre, e))

\* the keys a capacity eviction is expected to remove in this event
ExpectedEvictedX(hs, pre, e, prelude) ==
    LET q == LiveOrder(hs, pre, e.now)
        n1 == Min(P1Len(hs, pre, e.now), Len(q))
        p1 == IF prelude THEN Range(Prefix(q, n1)) ELSE {}
    IN IF prelude /\ IsContest(hs, pre, e) /\ P2Exists(hs, pre, e)
          /\ e.k \in KeysIn(e.snap.res)
       THEN p1 \cup Range(P2(hs, pre, e)) ELSE p1
ExpectedEvicted(hs, pre, e) == ExpectedEvictedX(hs, pre, e, HasPrelude(hs, e))

\* residents that disappeared although they were live and not invalidated
LostLive(hs, pre, e) ==
    {k \in KeysIn(pre.res) : /\ k \notin KeysIn(e.snap.res)
                             /\ RefLive(hs, k, e.now)
                             /\ k \notin Targeted(hs, e) \cup Ambiguous(hs, e)}

-----------------------------------------------------------------------------
(* C01  lookups return only the latest live value                            *)

GoodPair(hs, k, v) == hs.last[k].p /\ ~hs.last[k].dead /\ v = hs.last[k].v

\* An iterator that stays alive while the clock moves is recorded as an Advance event that carries
\* what was yielded before the step (head, at the event's reading) and after it (tail, d later).
IsSplitIter(e) == e.ev = "Advance" /\ HasF(e, "head")
\* On the concurrent cache the owner of the iterator may also have called invalidate_all() right
\* after the step (xa), at reading now + d >= now + 1: everything the history has inserted so far is
\* then invalidated at a strictly later reading, so nothing may be yielded afterwards. (The call is
\* recorded once more as an ordinary event that follows this one at the same reading.)
SplitXa(e) == IsSplitIter(e) /\ HasF(e, "xa")
SplitItems(e) == e.head \o e.tail
KeysOf(items) == {items[i].k : i \in DOMAIN items}

Allowed_C01(hs, pre, e) ==
    CASE e.ev = "Get" -> e.r = None \/ GoodPair(hs, e.k, e.r)
      [] e.ev = "Contains" -> e.r = FALSE \/ (hs.last[e.k].p /\ ~hs.last[e.k].dead)
      [] e.ev = "Iter" -> /\ NoDup([i \in DOMAIN e.items |-> e.items[i].k])
                          /\ \A i \in DOMAIN e.items : GoodPair(hs, e.items[i].k, e.items[i].v)
      [] IsSplitIter(e) -> /\ NoDup([i \in DOMAIN SplitItems(e) |-> SplitItems(e)[i].k])
                           /\ \A i \in DOMAIN SplitItems(e) : GoodPair(hs, SplitItems(e)[i].k, SplitItems(e)[i].v)
                           /\ SplitXa(e) => e.tail = <<>>
      [] OTHER -> TRUE
NT_C01(hs, pre, e) == IsLookupHit(e) \/ (e.ev = "Iter" /\ e.items # <<>>) \/ (IsSplitIter(e) /\ SplitItems(e) # <<>>)
                      \/ (e.ev \in {"Get", "Contains"} /\ hs.last[e.k].p)

(* C05  time to live                                                         *)
HitKeys(e) == CASE e.ev = "Get" /\ e.r # None -> {e.k}
                [] e.ev = "Contains" /\ e.r = TRUE -> {e.k}
                [] e.ev = "Iter" -> {e.items[i].k : i \in DOMAIN e.items}
                [] OTHER -> {}

Allowed_C05(hs, pre, e) ==
    hs.cfg.ttl = None \/
       /\ \A k \in HitKeys(e) : hs.last[k].p => e.now < hs.last[k].t + hs.cfg.ttl
       /\ IsSplitIter(e) =>
             /\ \A k \in KeysOf(e.head) : hs.last[k].p => e.now < hs.last[k].t + hs.cfg.ttl
             /\ \A k \in KeysOf(e.tail) : hs.last[k].p => e.now + e.d < hs.last[k].t + hs.cfg.ttl
NT_C05(hs, pre, e) == hs.cfg.ttl # None /\
    ((e.ev \in {"Get", "Contains"} /\ hs.last[e.k].p /\ ~hs.last[e.k].dead) \/ e.ev = "Iter" \/ IsSplitIter(e))

(* C06  time to idle                                                         *)
Allowed_C06(hs, pre, e) ==
    hs.cfg.tti = None \/
       /\ \A k \in HitKeys(e) : hs.last[k].p => e.now < hs.last[k].acc + hs.cfg.tti
       /\ IsSplitIter(e) =>
             /\ \A k \in KeysOf(e.head) : hs.last[k].p => e.now < hs.last[k].acc + hs.cfg.tti
             /\ \A k \in KeysOf(e.tail) : hs.last[k].p => e.now + e.d < hs.last[k].acc + hs.cfg.tti
NT_C06(hs, pre, e) == hs.cfg.tti # None /\
    ((e.ev \in {"Get", "Contains"} /\ hs.last[e.k].p /\ ~hs.last[e.k].dead) \/ e.ev = "Iter" \/ IsSplitIter(e))

-----------------------------------------------------------------------------
(* C03  no spurious loss                                                     *)

\* room computed from what the implementation physically holds
FitsPhys(hs, pre, e) ==
    \/ hs.cfg.cap = None
    \/ SumW(pre.res) - (IF e.k \in KeysIn(pre.res) THEN Ent(pre.res, e.k).w ELSE 0) + e.w
          <= hs.cfg.cap

\* an entry written at clock reading t is live at t unless a zero duration is configured
LiveAtBirth(hs) == hs.cfg.ttl # 0 /\ hs.cfg.tti # 0

InsertKept(hs, keep, k, v, snap, now) ==
    /\ LiveAtBirth(hs) => (k \in KeysIn(snap.res) /\ Ent(snap.res, k).v = v)
    /\ \A j \in keep : (j # k /\ RefLive(hs, j, now)) => j \in KeysIn(snap.res)

NoOtherLossApplies(hs, pre, e) ==
    ~IsSync(hs) /\ e.ev \in {"Get", "Contains", "Invalidate", "InvalidateIf", "Iter", "Advance"}
    /\ ExcessT(hs, pre) = 0
NoOtherLoss(hs, pre, e) ==
    NoOtherLossApplies(hs, pre, e) =>
       \A i \in DOMAIN pre.res :
          LET k == pre.res[i].k IN
          (RefLive(hs, k, e.now) /\ pre.res[i].v = hs.last[k].v /\ k \notin Targeted(hs, e))
             => k \in KeysIn(e.snap.res)

Allowed_C03(hs, pre, e) ==
    /\ \* (a) while the history stayed within capacity, the cache is a map with expiry
       hs.within =>
         CASE e.ev = "Get" -> RefLive(hs, e.k, e.now) => e.r = hs.last[e.k].v
           [] e.ev = "Contains" -> RefLive(hs, e.k, e.now) => e.r = TRUE
           [] e.ev = "Iter" -> \A k \in HKeys(hs) : RefLive(hs, k, e.now) =>
                                   \E i \in DOMAIN e.items : e.items[i].k = k
           [] OTHER -> TRUE
    /\ \* (b) an insert that fits in what the implementation holds succeeds, evicting nothing
       (e.ev = "Insert" /\ ~IsSync(hs) /\ FitsPhys(hs, pre, e) /\ ExcessOf(hs, pre) = 0) =>
           InsertKept(hs, KeysIn(pre.res), e.k, e.v, e.snap, e.now)
    /\ \* (b') concurrent cache: the same, judged at the sync() that follows the insert
       (e.ev = "Sync" /\ hs.pend.on /\ hs.pend.fits /\ hs.pend.now = e.now /\ Quiescent(e.snap)) =>
           InsertKept(hs, hs.pend.keep, hs.pend.k, hs.pend.v, e.snap, e.now)
    /\ \* (c) "nothing is dropped for any other reason", whatever happened earlier: on the
       \* single-threaded cache a call that is not an insert, made while the cache is not above its
       \* capacity, loses no resident that holds the latest value of a key the history says is
       \* surely live (its own targets excepted)
       NoOtherLoss(hs, pre, e)
NT_C03(hs, pre, e) ==
    \/ (NoOtherLossApplies(hs, pre, e) /\ \E i \in DOMAIN pre.res : RefLive(hs, pre.res[i].k, e.now))
    \/ (hs.within /\ e.ev \in {"Get", "Contains"} /\ RefLive(hs, e.k, e.now))
    \/ (hs.within /\ e.ev = "Iter" /\ \E k \in HKeys(hs) : RefLive(hs, k, e.now))
    \/ (e.ev = "Insert" /\ ~IsSync(hs) /\ FitsPhys(hs, pre, e) /\ ExcessOf(hs, pre) = 0)
    \/ (e.ev = "Sync" /\ hs.pend.on /\ hs.pend.fits /\ hs.pend.now = e.now)

-----------------------------------------------------------------------------
(* C04  capacity bound                                                       *)

GrowthOf(pre, e) ==
    IF e.ev = "Insert" /\ e.k \in KeysIn(pre.res) /\ e.k \in KeysIn(e.snap.res)
    THEN SatSub(e.w, Ent(pre.res, e.k).w) ELSE 0
FreshOversize(hs, pre, e) ==
    e.ev = "Insert" /\ hs.cfg.cap # None /\ e.k \notin KeysIn(pre.res) /\ e.w > hs.cfg.cap

Allowed_C04(hs, pre, e) ==
    IF ~IsOp(e) THEN TRUE
    ELSE IF ~IsSync(hs)
    THEN /\ IF HasPrelude(hs, e) THEN ExcessT(hs, e.snap) <= GrowthOf(pre, e)
            ELSE ExcessT(hs, e.snap) <= ExcessT(hs, pre)
         /\ FreshOversize(hs, pre, e) => e.k \notin KeysIn(e.snap.res)
    ELSE \* what earlier growth left over the bound is removed by the following maintenance runs (how
         \* many it takes depends on the eviction batch: each run must at least make progress)
         /\ (e.ev = "Sync" /\ Quiescent(e.snap)) =>
               ExcessT(hs, e.snap) <= hs.growth + (IF hs.exq > 0 THEN hs.exq - 1 ELSE 0)
         /\ (e.ev = "Sync" /\ hs.pend.on /\ hs.pend.fresh /\ hs.pend.now = e.now
               /\ Quiescent(e.snap) /\ hs.cfg.cap # None /\ hs.pend.w > hs.cfg.cap)
            => ~(hs.pend.k \in KeysIn(e.snap.res) /\ Ent(e.snap.res, hs.pend.k).v = hs.pend.v)
NT_C04(hs, pre, e) ==
    hs.cfg.cap # None /\ IsOp(e) /\
    (IF IsSync(hs) THEN e.ev = "Sync" /\ Quiescent(e.snap) /\ SumW(e.snap.res) > 0
     ELSE SumW(pre.res) + (IF e.ev = "Insert" THEN e.w ELSE 0) > hs.cfg.cap)

-----------------------------------------------------------------------------
(* C07  invalidation is immediate, permanent and precise                     *)
(* "Targets disappear and stay away" is the dead flag judged by C01's rule   *)
(* here as well; "nothing else is affected" is judged on contains_key        *)
(* answers taken right before and right after the call at one clock reading. *)

Allowed_C07(hs, pre, e) ==
    \* anything inserted or updated after an invalidation call, re-inserted keys included, stays
    \* retrievable (as long as the history stayed within capacity: otherwise eviction may take it)
    /\ (hs.anyinv /\ hs.within /\ e.ev = "Get" /\ RefLive(hs, e.k, e.now)) => e.r = hs.last[e.k].v
    /\ (hs.anyinv /\ hs.within /\ e.ev = "Contains" /\ RefLive(hs, e.k, e.now)) => e.r = TRUE
    /\ (e.ev = "Get" /\ hs.last[e.k].p /\ hs.last[e.k].dead) => e.r = None
    /\ (e.ev = "Contains" /\ hs.last[e.k].p /\ hs.last[e.k].dead) => e.r = FALSE
    /\ e.ev = "Iter" => \A i \in DOMAIN e.items : ~(hs.last[e.items[i].k].p /\ hs.last[e.items[i].k].dead)
    /\ IsSplitIter(e) => \A k \in KeysOf(SplitItems(e)) : ~(hs.last[k].p /\ hs.last[k].dead)
    /\ SplitXa(e) => e.tail = <<>>
    /\ (e.ev = "Contains" /\ hs.inv.on /\ hs.inv.now = e.now) =>
          /\ e.k \in hs.inv.targeted => e.r = FALSE
          /\ (hs.inv.settled /\ e.k \notin hs.inv.targeted \cup hs.inv.amb /\ e.k \in hs.inv.pre) => e.r = TRUE
NT_C07(hs, pre, e) ==
    \/ (hs.anyinv /\ hs.within /\ e.ev \in {"Get", "Contains"} /\ RefLive(hs, e.k, e.now))
    \/ (e.ev \in {"Get", "Contains"} /\ hs.last[e.k].p /\ hs.last[e.k].dead)
    \/ (e.ev = "Contains" /\ hs.inv.on /\ hs.inv.now = e.now /\
          (e.k \in hs.inv.targeted \/ e.k \in hs.inv.pre))

-----------------------------------------------------------------------------
(* C08  no internal panic, no corruption of the intrusive lists              *)

WFDeque(d) ==
    LET n == Len(d.nodes) IN
    /\ n = d.len
    /\ (n = 0) => (d.head = 0 /\ d.tail = 0)
    /\ (n > 0) => (d.head = d.nodes[1].id /\ d.tail = d.nodes[n].id
                   /\ d.nodes[1].prev = 0 /\ d.nodes[n].next = 0)
    /\ \A i \in 1..n : d.nodes[i].id > 0
    /\ \A i, j \in 1..n : i # j => d.nodes[i].id # d.nodes[j].id
    /\ \A i \in 1..(n - 1) : d.nodes[i].next = d.nodes[i + 1].id /\ d.nodes[i + 1].prev = d.nodes[i].id
    /\ d.cur \in {0, -1} \cup {d.nodes[i].id : i \in 1..n}

BackPointersOk(snap) ==
    \A i \in DOMAIN snap.res :
       LET r == snap.res[i] IN
       /\ r.aon # 0 => \E j \in DOMAIN snap.dq.ao.nodes :
                          snap.dq.ao.nodes[j].id = r.aon /\ snap.dq.ao.nodes[j].k = r.k
       /\ r.won # 0 => \E j \in DOMAIN snap.dq.wo.nodes :
                          snap.dq.wo.nodes[j].id = r.won /\ snap.dq.wo.nodes[j].k = r.k
\* every node belongs to a resident entry that points back at it (no ghost nodes)
NodesOwned(snap) ==
    /\ \A j \in DOMAIN snap.dq.ao.nodes : \E i \in DOMAIN snap.res :
          snap.res[i].k = snap.dq.ao.nodes[j].k /\ snap.res[i].aon = snap.dq.ao.nodes[j].id
    /\ \A j \in DOMAIN snap.dq.wo.nodes : \E i \in DOMAIN snap.res :
          snap.res[i].k = snap.dq.wo.nodes[j].k /\ snap.res[i].won = snap.dq.wo.nodes[j].id

Allowed_C08(hs, pre, e) ==
    /\ e.ev \notin {"Panic", "Crash"}
    /\ (IsOp(e) /\ HasF(e.snap, "dq")) =>
          /\ WFDeque(e.snap.dq.ao) /\ WFDeque(e.snap.dq.wo)
          /\ BackPointersOk(e.snap)
          /\ (~IsSync(hs) \/ (e.ev = "Sync" /\ Quiescent(e.snap))) => NodesOwned(e.snap)
    /\ (IsOp(e) /\ HasF(e.snap, "dd")) => e.snap.dd = 0
NT_C08(hs, pre, e) == IsOp(e) /\ HasF(e.snap, "dq") /\ e.snap.dq.ao.len > 0

-----------------------------------------------------------------------------
(* C10  counters equal what the cache physically holds                       *)

ItW(snap) == SeqSum([i \in DOMAIN snap.it |->
                      IF snap.it[i].k \in KeysIn(snap.res) THEN TW(Ent(snap.res, snap.it[i].k)) ELSE 0])

Allowed_C10(hs, pre, e) ==
    (IsOp(e) /\ ~HasF(e.snap, "dropped") /\ (~IsSync(hs) \/ (e.ev = "Sync" /\ Quiescent(e.snap)))) =>
        /\ e.snap.ec = Len(e.snap.res)
        /\ e.snap.ws = SumTW(e.snap.res)
        /\ (hs.cfg.ttl = None /\ hs.cfg.tti = None /\ HasF(e.snap, "it")) =>
              (e.snap.ec = Len(e.snap.it) /\ e.snap.ws = ItW(e.snap))
NT_C10(hs, pre, e) ==
    IsOp(e) /\ ~HasF(e.snap, "dropped") /\ (~IsSync(hs) \/ (e.ev = "Sync" /\ Quiescent(e.snap)))
    /\ (Len(e.snap.res) > 0 \/ Len(pre.res) > 0)

-----------------------------------------------------------------------------
(* C11  every key and value dropped exactly once, and promptly               *)

Allowed_C11(hs, pre, e) ==
    /\ (IsOp(e) /\ ~HasF(e.snap, "dropped") /\ (~IsSync(hs) \/ (e.ev = "Sync" /\ Quiescent(e.snap)))) =>
          (e.snap.lk = Len(e.snap.res) /\ e.snap.lv = Len(e.snap.res) /\ e.snap.dd = 0)
    /\ (e.ev = "Drop") => (e.snap.lk = 0 /\ e.snap.lv = 0 /\ e.snap.dd = 0)
    /\ (e.ev = "End") => (e.lk = 0 /\ e.lv = 0 /\ e.dd = 0 /\ e.kd = e.km /\ e.vd = e.vm)
NT_C11(hs, pre, e) ==
    e.ev \in {"End", "Drop"} \/
    (IsOp(e) /\ (~IsSync(hs) \/ (e.ev = "Sync" /\ Quiescent(e.snap))) /\ Len(pre.res) > 0)

-----------------------------------------------------------------------------
(* C12  victims are the least recently used, and no more than needed         *)
(* (single-threaded cache; concurrent cache with maintenance after every op) *)

EagerSync(hs, pre, e) == IsSync(hs) /\ e.ev = "Sync" /\ hs.pend.on /\ hs.pend.now = e.now
                         /\ Quiescent(e.snap)

\* The concurrent cache used eagerly (sync() after every call): an insert of a new key issued at
\* a quiescent point and the sync() that follows it are judged as one step, with respect to the
\* order in which maintenance applied the calls (= the call order, in eager use).
PairReadyAny(hs, e) ==
    /\ IsSync(hs) /\ e.ev = "Sync" /\ hs.eager /\ hs.pend.on /\ hs.pend.now = e.now
    /\ Quiescent(e.snap) /\ ExcessOf(hs, hs.pend.pre) = 0
PairReady(hs, e) == PairReadyAny(hs, e) /\ hs.pend.fresh
\* an in-place update issued at a quiescent point, and the sync() that applies it
PairUpdate(hs, e) == PairReadyAny(hs, e) /\ ~hs.pend.fresh /\ hs.pend.k \in KeysIn(hs.pend.pre.res)
\* the history as it was before the insert, with every successful get honoured (eager use)
PairHist(hs) == [hs EXCEPT !.rec = hs.pend.rec,
                           !.last = [k \in HKeys(hs) |-> [hs.last[k] EXCEPT !.accLo = hs.last[k].acc]]]
PairEvent(hs, e) == [ev |-> "Insert", k |-> hs.pend.k, v |-> hs.pend.v, w |-> hs.pend.w, now |-> e.now,
                     snap |-> e.snap]

\* after an entry grew: the shortest prefix of the recency order (the updated key now most
\* recent, dead entries purged first) that frees the excess over max_capacity
ExpectedAfterGrowth(h, pre, pe) ==
    LET q0 == LiveOrder(h, pre, pe.now)
        q == Append(Without(q0, pe.k), pe.k)
        W == [x \in HKeys(h) |-> IF x = pe.k THEN pe.w ELSE WFun(h, pre)[x]]
        need == IF h.cfg.cap = None THEN 0 ELSE SatSub(SeqSum([i \in DOMAIN q |-> W[q[i]]]), h.cfg.cap)
        n == Min(ShortestPrefix(q, W, need, 0, 0), Len(q))
    IN Range(Prefix(q, n))

\* single-threaded cache: an in-place update that grows the entry restores the bound before it
\* returns: after the prelude, the shortest prefix of the recency order (the updated key now most
\* recent) that frees the excess
GrowthEvicted(hs, pre, e) ==
    IF ~(e.ev = "Insert" /\ ~IsSync(hs) /\ hs.cfg.cap # None /\ InSeq(Order2(hs, pre, e.now), e.k)) THEN {}
    ELSE LET q == Append(Without(Order2(hs, pre, e.now), e.k), e.k)
             W == [x \in HKeys(hs) |-> IF x = e.k THEN e.w ELSE WFun(hs, pre)[x]]
             need == SatSub(SeqSum([i \in DOMAIN q |-> W[q[i]]]), hs.cfg.cap)
             n == Min(ShortestPrefix(q, W, need, 0, 0), Len(q))
         IN Range(Prefix(q, n))

\* The concurrent cache beyond eager use: "with respect to the order in which maintenance applied
\* the recorded reads and writes". That order is rebuilt from the maintenance events of every
\* call: a read record applied to an entry that has a queue node, an admission and an applied
\* update make the key the most recent one; a purge scan that finds an updated entry at the front
\* moves it to the back; removals take the key out. An invalidate call takes the key out at once
\* (its node is skipped by every walk from then on). Every capacity victim (a victim of an
\* admission, an over-capacity eviction) must then be the least recent key of that order.
MxStep(q, m) ==
    CASE m.t = "read.hit" /\ m.k # -1 -> MoveToBack(q, m.k)
      [] m.t \in {"upsert.fit", "upsert.admit"} -> Append(Without(q, m.k), m.k)
      [] m.t \in {"upsert.update", "skip.dirty"} -> MoveToBack(q, m.k)
      [] m.t \in {"victim.rm", "evict", "expire.ao", "expire.wo", "remove", "release.stale", "release.absent"}
            -> Without(q, m.k)
      [] OTHER -> q
RECURSIVE MxFold(_, _)
MxFold(q, mx) == IF mx = <<>> THEN q ELSE MxFold(MxStep(q, Head(mx)), Tail(mx))
RECURSIVE MxVictimsOk(_, _)
MxVictimsOk(q, mx) ==
    IF mx = <<>> THEN TRUE
    ELSE LET m == Head(mx) IN
         \* (a victim whose key the order does not hold is the new, not yet admitted entry of a key
         \* whose invalidated predecessor left a node behind: open finding F12, variant (b), which the
         \* monitors of C03 / C07 judge; the order has nothing to say about it)
         /\ (m.t \in {"victim.rm", "evict"} /\ InSeq(q, m.k)) => Head(q) = m.k
         /\ MxVictimsOk(MxStep(q, m), Tail(mx))
\* the order at the moment the call's maintenance (if any) starts: the call's own map access first
MrecAtCall(hs, e) == IF e.ev = "Invalidate" THEN Without(hs.mrec, e.k) ELSE hs.mrec
MrecApplies(hs, e) == IsSync(hs) /\ IsOp(e) /\ HasF(e, "mx")

Allowed_C12(hs, pre, e) ==
    /\ MrecApplies(hs, e) => MxVictimsOk(MrecAtCall(hs, e), e.mx)
    /\ PairUpdate(hs, e) =>
          LET h == PairHist(hs)  pe == PairEvent(hs, e)
          IN LostLive(h, hs.pend.pre, pe) \ {pe.k} = ExpectedAfterGrowth(h, hs.pend.pre, pe) \ {pe.k}
    /\ PairReady(hs, e) =>
          LET h == PairHist(hs)  pe == PairEvent(hs, e)
          IN LostLive(h, hs.pend.pre, pe) \ {pe.k} = ExpectedEvictedX(h, hs.pend.pre, pe, TRUE) \ {pe.k}
    /\ (IsOp(e) /\ ~IsSync(hs) /\ ~HasF(e.snap, "dropped")) =>
          \* the fate of the key the call itself names is not a capacity matter
          LET own == (IF e.ev = "Insert" THEN {e.k} ELSE {}) \cup Targeted(hs, e) \cup Ambiguous(hs, e)
          IN LostLive(hs, pre, e) \ own = (ExpectedEvicted(hs, pre, e) \cup GrowthEvicted(hs, pre, e)) \ own
NT_C12(hs, pre, e) ==
    \/ (MrecApplies(hs, e) /\ \E i \in DOMAIN e.mx : e.mx[i].t \in {"victim.rm", "evict"})
    \/ IsOp(e) /\ ~IsSync(hs) /\ (LostLive(hs, pre, e) # {} \/ ExpectedEvicted(hs, pre, e) # {}
                                   \/ GrowthEvicted(hs, pre, e) # {})
    \/ PairReady(hs, e) /\ IsContest(PairHist(hs), hs.pend.pre, PairEvent(hs, e))
    \/ PairUpdate(hs, e) /\ ExpectedAfterGrowth(PairHist(hs), hs.pend.pre, PairEvent(hs, e)) # {}

-----------------------------------------------------------------------------
(* C13  TinyLFU admission                                                    *)

Predicted(hs, pre, e) ==
    /\ P2Exists(hs, pre, e)
    /\ pre.fq[e.k] > SeqSum([i \in DOMAIN P2(hs, pre, e) |-> pre.fq[P2(hs, pre, e)[i]]])

\* Beyond eager use, one shape of batch is judged: a new key inserted at a quiescent point, then
\* invalidations of other keys, then the sync() that applies all of it (no read is pending, so the
\* estimates of the contest are the ones read before the insert).  The statement leaves open
\* whether the invalidated keys still count as residents in that contest (call order) or not
\* (the order in which maintenance sees the map): the outcome is judged when both readings see a
\* contest and predict the same.
BatchReady(hs, e) ==
    /\ IsSync(hs) /\ e.ev = "Sync" /\ hs.eager /\ hs.pend2.on /\ hs.pend2.gone # {}
    /\ hs.pend2.p.fresh /\ hs.pend2.p.now = e.now
    /\ Quiescent(e.snap) /\ ExcessOf(hs, hs.pend2.p.pre) = 0
BatchHist(hs) == [hs EXCEPT !.rec = hs.pend2.p.rec,
                            !.last = [k \in HKeys(hs) |-> [hs.last[k] EXCEPT !.accLo = hs.last[k].acc]]]
\* call order: the invalidated keys were still residents when the newcomer arrived
BatchHistA(hs) == [BatchHist(hs) EXCEPT
                      !.last = [k \in HKeys(hs) |-> IF k \in hs.pend2.gone THEN [@[k] EXCEPT !.dead = FALSE] ELSE @[k]]]
\* maintenance order: they had left the map
BatchPreB(hs) == [hs.pend2.p.pre EXCEPT !.res = SelectSeq(@, LAMBDA r : r.k \notin hs.pend2.gone)]
BatchEvent(hs, e) == [ev |-> "Insert", k |-> hs.pend2.p.k, v |-> hs.pend2.p.v, w |-> hs.pend2.p.w, now |-> e.now,
                      snap |-> e.snap]
BatchAgreed(hs, e) ==
    /\ BatchReady(hs, e)
    /\ IsContest(BatchHistA(hs), hs.pend2.p.pre, BatchEvent(hs, e))
    /\ IsContest(BatchHist(hs), BatchPreB(hs), BatchEvent(hs, e))
    /\ Predicted(BatchHistA(hs), hs.pend2.p.pre, BatchEvent(hs, e))
          = Predicted(BatchHist(hs), BatchPreB(hs), BatchEvent(hs, e))

\* read records applied by the maintenance that ran inside this call
ReadsApplied(e) == IF HasF(e, "mx") THEN Len(SelectSeq(e.mx, LAMBDA m : m.t \in {"read.hit", "read.miss"})) ELSE 0

\* Every recorded lookup counts, whatever the state of the entry it found (admitted or still
\* waiting in the write queue, gone since, never there): with pairwise disjoint counters, the
\* estimator on before the call, no aging step and no estimate at its ceiling, the estimates grow
\* by exactly the number of read records that the call's maintenance applied.  (C14: "at least c";
\* C13's "a key looked up more often than the residents it would replace gets in" rests on it.)
ReadsCounted(hs, pre, e) ==
    (IsOp(e) /\ IsSync(hs) /\ pre.fq # <<>> /\ HasF(e.snap, "fq") /\ e.snap.fq # <<>> /\ HasF(e, "mx")
     /\ ReadsApplied(e) > 0 /\ pre.sk.on /\ ~e.snap.sk.aged /\ hs.cfg.hasher = "id"
     /\ \A j \in DOMAIN e.snap.fq : e.snap.fq[j] < 15)
    => SeqSum(e.snap.fq) = SeqSum(pre.fq) + ReadsApplied(e)

Allowed_C13(hs, pre, e) ==
    /\ ReadsCounted(hs, pre, e)
    /\ (e.ev = "Insert" /\ ~IsSync(hs) /\ IsContest(hs, pre, e)) =>
          ((e.k \in KeysIn(e.snap.res)) <=> Predicted(hs, pre, e))
    /\ (PairReady(hs, e) /\ IsContest(PairHist(hs), hs.pend.pre, PairEvent(hs, e))) =>
          ((hs.pend.k \in KeysIn(e.snap.res)) <=> Predicted(PairHist(hs), hs.pend.pre, PairEvent(hs, e)))
    /\ BatchAgreed(hs, e) =>
          ((hs.pend2.p.k \in KeysIn(e.snap.res)) <=> Predicted(BatchHistA(hs), hs.pend2.p.pre, BatchEvent(hs, e)))
NT_C13(hs, pre, e) ==
    \/ (IsOp(e) /\ IsSync(hs) /\ ReadsApplied(e) > 0 /\ pre.sk.on)
    \/ e.ev = "Insert" /\ ~IsSync(hs) /\ IsContest(hs, pre, e)
    \/ PairReady(hs, e) /\ IsContest(PairHist(hs), hs.pend.pre, PairEvent(hs, e))
    \/ BatchAgreed(hs, e)

-----------------------------------------------------------------------------
(* C14  (cache-level clause) only get is recorded, once                      *)

HalfLo(x) == x \div 2
HalfHi(x) == (x + 1) \div 2

Allowed_C14(hs, pre, e) ==
    /\ ReadsCounted(hs, pre, e)
    /\ (IsOp(e) /\ IsSync(hs) /\ pre.fq # <<>> /\ HasF(e.snap, "fq") /\ e.snap.fq # <<>> /\ HasF(e, "mx")) =>
          LET n == ReadsApplied(e) IN
          /\ hs.napplied + n <= hs.nget                       \* only get calls are ever recorded, once
          /\ n = 0 => e.snap.fq = pre.fq                       \* nothing else moves an estimate
          /\ (n > 0 /\ ~e.snap.sk.aged) =>
                \A j \in DOMAIN pre.fq : e.snap.fq[j] >= pre.fq[j] /\ e.snap.fq[j] <= Min(15, pre.fq[j] + n)
    /\ (IsOp(e) /\ ~IsSync(hs) /\ pre.fq # <<>> /\ HasF(e.snap, "fq") /\ e.snap.fq # <<>>) =>
        IF e.ev # "Get" THEN e.snap.fq = pre.fq
        ELSE IF ~pre.sk.on THEN e.snap.fq = pre.fq
        ELSE IF ~e.snap.sk.aged
        THEN /\ e.snap.fq[e.k] = Min(15, pre.fq[e.k] + 1)
             /\ \A j \in DOMAIN pre.fq : e.snap.fq[j] >= pre.fq[j] /\ e.snap.fq[j] <= Min(15, pre.fq[j] + 1)
        ELSE \A j \in DOMAIN pre.fq :
                e.snap.fq[j] >= HalfLo(pre.fq[j]) /\ e.snap.fq[j] <= HalfHi(Min(15, pre.fq[j] + 1))
NT_C14(hs, pre, e) == IsOp(e) /\ pre.sk.on /\ (~IsSync(hs) \/ ReadsApplied(e) > 0)

-----------------------------------------------------------------------------
(* C15  (direct clause) contains_key and iteration neither reset idle timers, *)
(* nor change recency, nor feed the popularity estimator.  Judged on the      *)
(* snapshots around the call.  On the single-threaded cache contains_key may  *)
(* purge and evict (every call does that first): survivors are compared.  On  *)
(* the concurrent cache the call is judged when no maintenance is pending, so *)
(* that nothing it might apply is mistaken for its own effect.                *)

OrderOfCommon(pre, post) ==
    LET both == {k \in Range(pre.ao) : InSeq(post.ao, k)}
    IN SelectSeq(pre.ao, LAMBDA k : k \in both) = SelectSeq(post.ao, LAMBDA k : k \in both)

Allowed_C15(hs, pre, e) ==
    (e.ev \in {"Contains", "Iter"} /\ (~IsSync(hs) \/ Quiescent(pre))) =>
        /\ e.snap.fq = pre.fq                                         \* estimator untouched
        /\ e.snap.sk.on = pre.sk.on                                   \* ... and not switched on either
        /\ IsSync(hs) => (e.snap.rlen = 0 /\ e.snap.wlen = 0)          \* nothing recorded for later
        /\ \A i \in DOMAIN e.snap.res :                                \* idle timers untouched
              LET r == e.snap.res[i] IN
              r.k \in KeysIn(pre.res) => r.la = Ent(pre.res, r.k).la
        /\ OrderOfCommon(pre, e.snap)                                  \* recency untouched
        /\ KeysIn(e.snap.res) \subseteq KeysIn(pre.res)
        \* an observation removes nothing that another lookup would still have returned
        /\ \A k \in KeysIn(pre.res) \ KeysIn(e.snap.res) : ~RefLive(hs, k, e.now)
NT_C15(hs, pre, e) == e.ev \in {"Contains", "Iter"} /\ pre.res # <<>>

-----------------------------------------------------------------------------
(* C16  iteration yields every live entry exactly once                       *)

Allowed_C16(hs, pre, e) ==
    /\ e.ev = "Iter" =>
      /\ NoDup([i \in DOMAIN e.items |-> e.items[i].k])
      /\ \A k \in KeysIn(pre.res) : RefLive(hs, k, e.now) => \E i \in DOMAIN e.items : e.items[i].k = k
      /\ \A i \in DOMAIN e.items : RefMaybe(hs, e.items[i].k, e.now) /\ e.items[i].v = hs.last[e.items[i].k].v
    \* an iterator alive across a clock step: no key twice, everything that is surely live also after
    \* the step is yielded, and nothing is yielded at a reading at which it cannot be live
    /\ IsSplitIter(e) =>
      /\ NoDup([i \in DOMAIN SplitItems(e) |-> SplitItems(e)[i].k])
      /\ ~SplitXa(e) => \A k \in KeysIn(pre.res) : RefLive(hs, k, e.now + e.d) => k \in KeysOf(SplitItems(e))
      /\ SplitXa(e) => e.tail = <<>>
      /\ \A i \in DOMAIN e.head : RefMaybe(hs, e.head[i].k, e.now) /\ e.head[i].v = hs.last[e.head[i].k].v
      /\ \A i \in DOMAIN e.tail : RefMaybe(hs, e.tail[i].k, e.now + e.d) /\ e.tail[i].v = hs.last[e.tail[i].k].v
NT_C16(hs, pre, e) == (e.ev = "Iter" /\ (e.items # <<>> \/ pre.res # <<>>)) \/ (IsSplitIter(e) /\ pre.res # <<>>)

-----------------------------------------------------------------------------
(* The summary update                                                        *)

RecUpdate(hs, e) ==
    LET resk == KeysIn(e.snap.res)
        kept == SelectSeq(hs.rec, LAMBDA k : k \in resk)
        used == CASE e.ev = "Insert" /\ e.k \in resk -> {e.k}
                  [] e.ev = "Get" /\ e.r # None -> {e.k}
                  [] OTHER -> {}
        moved == WithoutSet(kept, used) \o SortedSeq(used)
        \* a resident the order has never seen (possible only on the concurrent cache)
        extra == SortedSeq({k \in resk : ~InSeq(moved, k)})
    IN moved \o extra

\* P: the monitors in use; parts of the summary nobody reads are not maintained,
\* so that they do not multiply the states of a model-checking run.
HUpdate(P, hs, pre, e) ==
    IF ~IsOp(e) THEN hs
    ELSE
    LET tg == Targeted(hs, e)
        am == Ambiguous(hs, e)
        last1 == [k \in HKeys(hs) |->
                    IF e.ev = "Insert" /\ k = e.k
                    THEN [p |-> TRUE, v |-> e.v, w |-> e.w, t |-> e.now, dead |-> FALSE,
                          amb |-> FALSE, acc |-> e.now, accLo |-> e.now]
                    ELSE IF e.ev = "Get" /\ k = e.k /\ e.r # None /\ hs.last[k].p
                    THEN [hs.last[k] EXCEPT !.acc = Max(@, e.now),
                                            !.accLo = IF IsSync(hs) THEN @ ELSE Max(@, e.now)]
                    ELSE IF k \in tg THEN [hs.last[k] EXCEPT !.dead = TRUE]
                    ELSE IF k \in am THEN [hs.last[k] EXCEPT !.amb = TRUE]
                    \* concurrent cache: "the idle-timer extension of a get is guaranteed once pending
                    \* maintenance has run": at a sync() that leaves nothing queued every successful
                    \* get so far counts (a sequential client never fills the read queue, so none is dropped)
                    ELSE IF IsSync(hs) /\ e.ev = "Sync" /\ Quiescent(e.snap)
                    THEN [hs.last[k] EXCEPT !.accLo = Max(@, hs.last[k].acc)]
                    ELSE hs.last[k]]
        h1 == [hs EXCEPT !.last = last1]
        within1 == hs.within /\ (e.ev = "Insert" => (hs.cfg.cap = None \/ LiveWeight(h1, e.now) <= hs.cfg.cap))
        \* C07 bookkeeping
        sameNow == hs.visnow = e.now
        vis0 == IF sameNow THEN hs.vis ELSE {}
        vis1 == IF e.ev = "Contains"
                THEN (IF e.r THEN vis0 \cup {e.k} ELSE vis0 \ {e.k})
                ELSE IF e.ev = "Iter" THEN vis0
                ELSE {}
        isInv == e.ev \in {"Invalidate", "InvalidateAll", "InvalidateIf"}
        inv1 == IF isInv
                THEN [on |-> TRUE, targeted |-> tg, amb |-> am, pre |-> vis0, now |-> e.now,
                      \* "nothing else is affected" is only promised when no maintenance is pending
                      settled |-> (~IsSync(hs) \/ (Quiescent(pre) /\ ExcessOf(hs, pre) = 0))]
                ELSE IF e.ev \in {"Contains", "Iter"} /\ hs.inv.now = e.now THEN hs.inv
                ELSE NoInv
        needRec == P \cap {"C12", "C13"} # {}
        \* concurrent cache: remember an insert until the sync() that follows it
        pend1 == IF IsSync(hs) /\ e.ev = "Insert" /\ Quiescent(pre)
                 THEN [pre |-> IF needRec THEN pre ELSE EmptySnap, rec |-> hs.rec,
                       on |-> TRUE, k |-> e.k, v |-> e.v, w |-> e.w,
                       fits |-> FitsPhys(hs, pre, e) /\ ExcessOf(hs, pre) = 0, fresh |-> e.k \notin KeysIn(pre.res),
                       keep |-> KeysIn(pre.res), now |-> e.now]
                 ELSE NoPend
        trailing == e.ev = "Invalidate" /\ hs.pend2.on /\ e.k # hs.pend2.p.k /\ e.now = hs.pend2.p.now
        pend2n == IF IsSync(hs) /\ e.ev = "Insert" /\ Quiescent(pre)
                  THEN [on |-> TRUE, gone |-> {}, p |-> pend1]
                  ELSE IF trailing THEN [hs.pend2 EXCEPT !.gone = @ \cup {e.k}]
                  ELSE NoPend2
        growth1 == IF ~IsSync(hs) THEN 0
                   ELSE IF e.ev = "Sync" /\ Quiescent(e.snap) THEN 0
                   ELSE IF e.ev = "Insert" /\ e.k \in KeysIn(pre.res)
                   THEN hs.growth + SatSub(e.w, TW(Ent(pre.res, e.k)))
                   ELSE hs.growth
        changing == e.ev \in {"Insert", "Get", "Invalidate", "InvalidateAll"}
        needVis == "C07" \in P
        needPend == P \cap {"C03", "C04", "C12", "C13"} # {}
    IN [h1 EXCEPT !.within = IF P \cap {"C03", "C07"} # {} THEN within1 ELSE hs.within,
                  !.anyinv = IF needVis THEN (hs.anyinv \/ isInv) ELSE hs.anyinv,
                  !.rec = IF needRec THEN RecUpdate(hs, e) ELSE hs.rec,
                  !.exq = IF "C04" \in P /\ IsSync(hs) /\ e.ev = "Sync" /\ Quiescent(e.snap)
                          THEN ExcessT(hs, e.snap) ELSE hs.exq,
                  !.mrec = IF "C12" \in P /\ MrecApplies(hs, e) THEN MxFold(MrecAtCall(hs, e), e.mx) ELSE hs.mrec,
                  !.vis = IF needVis THEN vis1 ELSE hs.vis,
                  !.visnow = IF needVis THEN e.now ELSE hs.visnow,
                  !.inv = IF needVis THEN inv1 ELSE hs.inv,
                  !.pend = IF needPend THEN pend1 ELSE hs.pend,
                  !.pend2 = IF "C13" \in P THEN pend2n ELSE hs.pend2,
                  !.growth = IF "C04" \in P THEN growth1 ELSE hs.growth,
                  !.eager = IF needRec /\ IsSync(hs) THEN (hs.eager /\ ~(changing /\ hs.await /\ ~trailing))
                            ELSE hs.eager,
                  !.await = IF needRec /\ IsSync(hs)
                            THEN (IF changing THEN TRUE ELSE IF e.ev = "Sync" THEN FALSE ELSE hs.await)
                            ELSE hs.await,
                  !.nget = IF "C14" \in P /\ IsSync(hs) /\ e.ev = "Get" THEN hs.nget + 1 ELSE hs.nget,
                  !.napplied = IF "C14" \in P /\ IsSync(hs) THEN hs.napplied + ReadsApplied(e) ELSE hs.napplied]

-----------------------------------------------------------------------------
(* All sequential monitors together                                          *)

Props == {"C01", "C03", "C04", "C05", "C06", "C07", "C08", "C10", "C11", "C12", "C13",
          "C14", "C15", "C16"}

AllowedBy(p, hs, pre, e) ==
    CASE p = "C01" -> Allowed_C01(hs, pre, e)
      [] p = "C03" -> Allowed_C03(hs, pre, e)
      [] p = "C04" -> Allowed_C04(hs, pre, e)
      [] p = "C05" -> Allowed_C05(hs, pre, e)
      [] p = "C06" -> Allowed_C06(hs, pre, e)
      [] p = "C07" -> Allowed_C07(hs, pre, e)
      [] p = "C08" -> Allowed_C08(hs, pre, e)
      [] p = "C09" -> e.ev # "Timeout"            \* every call of a sequential client returns
      [] p = "C10" -> Allowed_C10(hs, pre, e)
      [] p = "C11" -> Allowed_C11(hs, pre, e)
      [] p = "C12" -> Allowed_C12(hs, pre, e)
      [] p = "C13" -> Allowed_C13(hs, pre, e)
      [] p = "C14" -> Allowed_C14(hs, pre, e)
      [] p = "C15" -> Allowed_C15(hs, pre, e)
      [] p = "C16" -> Allowed_C16(hs, pre, e)

NonTrivialBy(p, hs, pre, e) ==
    CASE p = "C01" -> NT_C01(hs, pre, e)
      [] p = "C03" -> NT_C03(hs, pre, e)
      [] p = "C04" -> NT_C04(hs, pre, e)
      [] p = "C05" -> NT_C05(hs, pre, e)
      [] p = "C06" -> NT_C06(hs, pre, e)
      [] p = "C07" -> NT_C07(hs, pre, e)
      [] p = "C08" -> NT_C08(hs, pre, e)
      [] p = "C09" -> IsOp(e) \/ e.ev = "Timeout"
      [] p = "C10" -> NT_C10(hs, pre, e)
      [] p = "C11" -> NT_C11(hs, pre, e)
      [] p = "C12" -> NT_C12(hs, pre, e)
      [] p = "C13" -> NT_C13(hs, pre, e)
      [] p = "C14" -> NT_C14(hs, pre, e)
      [] p = "C15" -> NT_C15(hs, pre, e)
      [] p = "C16" -> NT_C16(hs, pre, e)

=============================================================================
