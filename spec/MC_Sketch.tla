----------------------------- MODULE MC_Sketch -----------------------------
(* Sketch.tla composed with the C14 monitor: every increment sequence over   *)
(* small hash families (colliding fully, partially, not at all) on the tiny  *)
(* tables that capacities 0..3 produce.  The state space is finite because   *)
(* counters saturate and the size is reset by aging.                         *)
EXTENDS Sketch, Json

CONSTANTS Family, Emit, MaxDepth

VARIABLES s, ps, ok, h
vars == <<s, ps, ok, h>>
View == <<s, ps, ok>>

P(sl, st) == <<<<sl[1], st>>, <<sl[2], st + 1>>, <<sl[3], st + 2>>, <<sl[4], st + 3>>>>

Families ==
    [a0 |-> [cap |-> 0, pos |-> <<P(<<0,0,0,0>>, 0), P(<<0,0,0,0>>, 0), P(<<0,0,0,0>>, 4)>>],
     a1 |-> [cap |-> 1, pos |-> <<P(<<0,0,0,0>>, 0), P(<<0,0,0,0>>, 4), P(<<0,0,0,0>>, 8), P(<<0,0,0,0>>, 12)>>],
     b2 |-> [cap |-> 2, pos |-> <<P(<<0,1,0,1>>, 0), P(<<0,0,1,1>>, 0), P(<<1,1,1,1>>, 8)>>],
     c3 |-> [cap |-> 3, pos |-> <<P(<<0,1,2,3>>, 0), P(<<3,1,0,2>>, 0), P(<<0,1,2,3>>, 4), P(<<2,2,2,2>>, 12)>>]]

F == Families[Family]

Init == s = SkInit(F.cap, F.pos) /\ ps = PInit14(F.pos) /\ ok = TRUE /\ h = <<>>

Next == \E g \in DOMAIN F.pos :
          LET s2 == SkIncrement(s, g)
              e == [g |-> g, est |-> SkEst(s2), aged |-> s2.aged, size |-> s2.size]
          IN /\ s' = s2
             /\ ok' = Allowed_Sk14(ps, e)
             /\ ps' = PUpdate14(ps, e)
             /\ h' = IF Emit \/ MaxDepth > 0 THEN Append(h, g) ELSE h
             /\ (Emit => PrintT(<<"EDGE", ToJson([cap |-> F.cap, pos |-> F.pos, incs |-> h', last |-> e])>>))

Spec == Init /\ [][Next]_vars
Ok == ok
NoCrash == ~s.crash
Stop == ok /\ ~s.crash
Depth == Len(h) < MaxDepth
\* vacuity guards: aging and saturation are reached
AgingReachable == ~s.aged
=============================================================================
