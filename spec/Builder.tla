------------------------------ MODULE Builder ------------------------------
(* Layer I of the two CacheBuilders / Cache::new / Policy, and the monitor   *)
(* of property C17.  Durations and capacities are named by index into the    *)
(* boundary lists the harness uses:                                          *)
(*   duration  -1 absent, 0: 0 s, 1: 1 s, 2: 1000 y - 1 ns, 3: 1000 y,       *)
(*             4: 1000 y + 1 ns, 5: 1001 y                                   *)
(*   capacity  -1 absent, 0: 0, 1: 1, 2: 2, 3: 2^32, 4: u64::MAX             *)
(*   initial capacity  -1 absent, 0: 0, 1: 1, 2: 1000                        *)
EXTENDS Common, TLC

TooLong(d) == d \in {4, 5}

\* what build() does: panics iff a duration exceeds 1000 years, else the policy is what was given
BuildOf(c) ==
    IF TooLong(c.ttl) \/ TooLong(c.tti)
    THEN [panicked |-> TRUE, policy |-> [cap |-> None, ttl |-> None, tti |-> None]]
    ELSE [panicked |-> FALSE, policy |-> [cap |-> c.cap, ttl |-> c.ttl, tti |-> c.tti]]

\* The follow-up history: insert 1,2,3 (values 10,20,30); sync; contains 1..3; entry_count;
\* weighted_size; invalidate 2; sync; contains 2; entry_count.  No get, so admission does not
\* depend on the hasher.  Expected observations as a function of the configuration:
CapOf(i) == CASE i = None -> 1000000 [] i = 0 -> 0 [] i = 1 -> 1 [] i = 2 -> 2 [] OTHER -> 1000000
WeightOf(c, v) == IF c.weigher THEN 1 + ((v \div 10) % 2) ELSE 1   \* 10 -> 2, 20 -> 1, 30 -> 2

\* keys retained after inserting 1,2,3 in order into an empty cache with no reads: a key is
\* admitted iff it fits (candidates never win a popularity contest with estimate 0)
RECURSIVE Fill(_, _, _, _)
Fill(c, ks, kept, ws) ==
    IF ks = <<>> THEN kept
    ELSE LET k == Head(ks)
             w == WeightOf(c, k * 10)
         IN IF ws + w <= CapOf(c.cap) THEN Fill(c, Tail(ks), Append(kept, k), ws + w)
            ELSE Fill(c, Tail(ks), kept, ws)

Dead(c) == c.ttl = 0 \/ c.tti = 0     \* zero durations: nothing is ever observable

FollowOf(c) ==
    LET kept == Fill(c, <<1, 2, 3>>, <<>>, 0)
        vis == IF Dead(c) THEN {} ELSE Range(kept)
        wsum == SeqSum([i \in DOMAIN kept |-> WeightOf(c, kept[i] * 10)])
        kept2 == SelectSeq(kept, LAMBDA k : k # 2)
        \* the second half: +500 ms, get(1) (and sync), +500 ms, contains 1 and 3.  One second after
        \* the inserts a ttl of 0 s or 1 s has expired everything, a tti of 1 s everything but the
        \* key that was read half a second ago; the other durations are 1000 years.
        alive(k) == k \in vis /\ c.ttl \notin {0, 1} /\ c.tti # 0 /\ (c.tti = 1 => k = 1)
    IN [c1 |-> 1 \in vis, c2 |-> 2 \in vis, c3 |-> 3 \in vis,
        g1 |-> IF 1 \in vis THEN 10 ELSE None, t1 |-> alive(1), t3 |-> alive(3),
        \* entries expired at once may or may not have been purged yet: counters are not predicted then
        ec |-> IF Dead(c) THEN None ELSE Len(kept), ws |-> IF Dead(c) THEN None ELSE wsum,
        c2after |-> FALSE, ecafter |-> IF Dead(c) THEN None ELSE Len(kept2)]

-----------------------------------------------------------------------------
(* The monitor: events are Build [cfg fields, panicked, policy], Follow      *)
(* [obs] and Twin [which, panicked, obs] (an equivalent configuration).      *)

PInit17 == [cfg |-> [cap |-> None, ttl |-> None, tti |-> None, weigher |-> FALSE], built |-> FALSE,
            obs |-> <<>>, hasobs |-> FALSE, policy |-> <<>>]

PUpdate17(ps, e) ==
    CASE e.ev = "Build" -> [cfg |-> [cap |-> e.cap, ttl |-> e.ttl, tti |-> e.tti, weigher |-> e.weigher],
                            built |-> ~e.panicked, obs |-> <<>>, hasobs |-> FALSE, policy |-> e.policy]
      [] e.ev = "Follow" -> [ps EXCEPT !.obs = e.obs, !.hasobs = TRUE]
      [] OTHER -> ps

Allowed_C17(ps, e) ==
    CASE e.ev = "Build" ->
           /\ e.panicked <=> (TooLong(e.ttl) \/ TooLong(e.tti))
           /\ ~e.panicked => (e.policy.cap = e.cap /\ e.policy.ttl = e.ttl /\ e.policy.tti = e.tti)
      [] e.ev = "Follow" ->
           \* without max_capacity nothing is evicted for size; without a weigher every entry weighs 1
           /\ (ps.cfg.cap = None /\ ~Dead(ps.cfg)) => (e.obs.c1 /\ e.obs.c2 /\ e.obs.c3 /\ e.obs.ec = 3)
           /\ (~ps.cfg.weigher /\ ~Dead(ps.cfg)) => e.obs.ws = e.obs.ec
           \* ... and with a weigher (with or without max_capacity) every entry weighs what it says
           /\ ~Dead(ps.cfg) =>
                 e.obs.ws = (IF e.obs.c1 THEN WeightOf(ps.cfg, 10) ELSE 0) + (IF e.obs.c2 THEN WeightOf(ps.cfg, 20) ELSE 0)
                            + (IF e.obs.c3 THEN WeightOf(ps.cfg, 30) ELSE 0)
           /\ ~e.obs.c2after
      [] e.ev = "Twin" ->
           \* initial_capacity has no observable effect; new(n) = builder().max_capacity(n).build()
           \* and so has the route by which the hasher is given
           /\ e.panicked = ~ps.built
           /\ (ps.built /\ "policy" \in DOMAIN e) => e.policy = ps.policy
           /\ (ps.built /\ ps.hasobs) => e.obs = ps.obs
      [] OTHER -> FALSE     \* Panic / Crash outside build()
=============================================================================
