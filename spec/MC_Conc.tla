------------------------------- MODULE MC_Conc -------------------------------
(* Every interleaving (at switch-point granularity) of small multi-threaded  *)
(* programs on the concurrent cache: C02 monitor on the invoke / return      *)
(* events, no deadlock, termination, no crash, and after the threads have    *)
(* stopped: counters equal to what is resident, capacity bound, a refill of  *)
(* max_capacity fresh entries fully retained (C03, C04, C10 concurrent       *)
(* clauses).                                                                 *)
EXTENDS SyncConc, Json

CONSTANTS Prog, Emit,
          PickM, PickR    \* "all" slices: only the programs whose code is PickR modulo PickM (0: all of them)

VARIABLES g, ps, bad, fin, h, pp
vars == <<g, ps, bad, fin, h, pp>>
View == <<g, ps, bad, fin, pp>>

Cf(cap, ttl, tti, wg) ==
    [kind |-> "sync", cap |-> cap, ttl |-> ttl, tti |-> tti, weigher |-> wg, hconst |-> FALSE,
     hasher |-> "id", nkeys |-> NKeys]

I(t, n, k) == [op |-> "Insert", k |-> k, v |-> t * 100 + n, w |-> 1]
IW(t, n, k, w) == [op |-> "Insert", k |-> k, v |-> t * 100 + n, w |-> w]
G(k) == [op |-> "Get", k |-> k]
X(k) == [op |-> "Invalidate", k |-> k]
XA == [op |-> "InvalidateAll"]
SY == [op |-> "Sync"]
CK(k) == [op |-> "Contains", k |-> k]
ADV(d) == [op |-> "Advance", d |-> d]

\* the catalogue of race shapes: [cfg, progs]; thread t's n-th operation writes value t*100+n
Programs ==
    [ii     |-> [cfg |-> Cf(1, None, None, FALSE), progs |-> <<<<I(1,1,1), G(1)>>, <<I(2,1,1), G(1)>>>>],
     ii2    |-> [cfg |-> Cf(2, None, None, FALSE), progs |-> <<<<I(1,1,1), I(1,2,1), G(1)>>, <<I(2,1,1), G(1)>>>>],
     ixi    |-> [cfg |-> Cf(2, None, None, FALSE), progs |-> <<<<I(1,1,1), X(1), I(1,3,1)>>, <<G(1), G(1)>>>>],
     upd    |-> [cfg |-> Cf(1, None, None, FALSE), progs |-> <<<<I(1,1,1), I(1,2,1)>>, <<I(2,1,2), G(1)>>>>],
     rej    |-> [cfg |-> Cf(1, None, None, FALSE), progs |-> <<<<I(1,1,1), SY>>, <<I(2,1,2), I(2,2,2), G(2)>>>>],
     syncs  |-> [cfg |-> Cf(1, None, None, FALSE), progs |-> <<<<I(1,1,1), SY>>, <<I(2,1,1), SY>>>>],
     ia     |-> [cfg |-> Cf(2, None, None, FALSE), progs |-> <<<<I(1,1,1), XA, G(1)>>, <<ADV(1), I(2,2,1), G(1)>>>>],
     wgt    |-> [cfg |-> Cf(2, None, None, TRUE), progs |-> <<<<IW(1,1,1,2), IW(1,2,1,1)>>, <<IW(2,1,2,1), X(1)>>>>],
     xget   |-> [cfg |-> Cf(1, None, None, FALSE), progs |-> <<<<I(1,1,1), X(1)>>, <<G(1), I(2,2,1), G(1)>>>>],
     ttl    |-> [cfg |-> Cf(1, 1, None, FALSE), progs |-> <<<<I(1,1,1), ADV(1), I(1,3,2)>>, <<G(1), I(2,2,1), G(2)>>>>],
     tti    |-> [cfg |-> Cf(2, None, 1, FALSE), progs |-> <<<<I(1,1,1), G(1), ADV(1)>>, <<I(2,1,1), G(1), SY>>>>],
     three  |-> [cfg |-> Cf(1, None, None, FALSE), progs |-> <<<<I(1,1,1)>>, <<I(2,1,1), G(1)>>, <<X(1), G(1)>>>>],
     three2 |-> [cfg |-> Cf(2, None, None, FALSE), progs |-> <<<<I(1,1,1), G(2)>>, <<I(2,1,2), G(1)>>, <<I(3,1,1), SY>>>>],
     iax    |-> [cfg |-> Cf(2, None, None, FALSE),
                 progs |-> <<<<I(1,1,1), ADV(1), XA, G(1)>>, <<G(1), I(2,2,1), G(1)>>>>],
     \* an insert caught between its map access and its send, beside a reader that sees the value,
     \* a later invalidate_all and a maintenance run that finds the cache drained
     iasy   |-> [cfg |-> Cf(2, None, None, FALSE),
                 progs |-> <<<<I(1,1,1)>>, <<G(1), ADV(1), XA, SY, G(1), SY>>>>],
     \* an invalidate_all that is still under way (if it does more than one step) while another
     \* thread inserts and completes a later invalidate_all: the later call wins
     xaxa   |-> [cfg |-> Cf(2, None, None, FALSE),
                 progs |-> <<<<XA, G(1)>>, <<ADV(1), I(2,2,1), ADV(1), XA, G(1)>>>>],
     \* two queued writes of one key, the first of which maintenance discards (the cache is full),
     \* while another thread writes the key again
     putback |-> [cfg |-> Cf(1, None, None, FALSE),
                  progs |-> <<<<I(1,1,2), SY, I(1,3,1), I(1,4,1), SY, G(1)>>, <<I(2,1,1), G(1)>>>>],
     \* explicit sync() calls beside a thread whose inserts run housekeeping themselves (with scaled
     \* queues the writer depends on housekeeping being granted again after every sync()); the read
     \* between the two sync() calls lets the writer enter housekeeping before the second one starts
     syncflag |-> [cfg |-> Cf(2, None, None, FALSE),
                   progs |-> <<<<I(1,1,1), I(1,2,2), I(1,3,1), I(1,4,2)>>, <<SY, G(2), SY>>>>],
     \* a queued insert killed by invalidate_all; while maintenance is about to remove it from the
     \* map (m.w2, m.w3) another thread writes the key again
     deadrm |-> [cfg |-> Cf(2, None, None, FALSE),
                 progs |-> <<<<I(1,1,1), ADV(1), XA, SY, G(1)>>, <<I(2,1,1), G(1)>>>>],
     \* expiry beside a maintenance run that another thread's write has triggered (with scaled
     \* queues the fourth insert finds the write queue at its flush point): the reader looks at an
     \* entry that is past its deadline while the housekeeper is busy
     ttihk  |-> [cfg |-> Cf(2, None, 1, FALSE),
                 progs |-> <<<<I(1,1,1), I(1,2,2), ADV(1), I(1,3,2), I(1,4,2)>>, <<G(1), G(1)>>>>],
     ttlhk  |-> [cfg |-> Cf(2, 1, None, FALSE),
                 progs |-> <<<<I(1,1,1), I(1,2,2), ADV(1), I(1,3,2), I(1,4,2)>>, <<G(1), G(1)>>>>],
     farw   |-> [cfg |-> Cf(1, None, None, FALSE),
                 progs |-> <<<<I(1,1,1), SY, ADV(1), I(1,3,2), X(1), G(2)>>, <<G(2), SY, G(2)>>>>],
     farx   |-> [cfg |-> Cf(2, 1, None, FALSE),
                 progs |-> <<<<I(1,1,1), SY, ADV(1), I(1,4,2), X(1), I(1,6,1)>>, <<SY, G(1), G(2)>>>>],
     ttix   |-> [cfg |-> Cf(2, None, 2, FALSE),
                 progs |-> <<<<I(1,1,1), SY, ADV(1), G(1), ADV(1), X(1), SY, G(1)>>, <<G(1)>>>>],
     grow   |-> [cfg |-> Cf(2, None, None, TRUE),
                 progs |-> <<<<IW(1,1,1,1), SY, IW(1,3,1,3), SY>>, <<IW(2,1,1,1), G(1)>>>>],
     burst  |-> [cfg |-> Cf(1, None, None, FALSE), progs |-> <<<<I(1,1,1), I(1,2,2), I(1,3,1), I(1,4,2)>>, <<ADV(1), G(1), G(2)>>>>]]

\* Beside the catalogue: EVERY program of two threads with one or two operations each over a small
\* alphabet (Prog = "all_unit", "all_wgt", "all_exp"), the configuration and the program chosen in the initial state.
\* Thread t's n-th operation writes value t*100+n.
Alpha(c, t, n) ==
    (IF c.weigher THEN {IW(t, n, 1, 1), IW(t, n, 1, 2), IW(t, n, 2, 1)} ELSE {I(t, n, 1), I(t, n, 2)})
    \cup {G(1), X(1), XA, SY}
    \cup (IF c.ttl # None \/ c.tti # None THEN {ADV(1)} ELSE {})
SeqsOf(c, t) == {<<a>> : a \in Alpha(c, t, 1)} \cup {<<a, b>> : a \in Alpha(c, t, 1), b \in Alpha(c, t, 2)}
HasInsert(p) == \E i \in DOMAIN p : p[i].op = "Insert"
AllCfgs ==
    [unit |-> {Cf(1, None, None, FALSE)},
     wgt  |-> {Cf(2, None, None, TRUE)},
     exp  |-> {Cf(1, 1, None, FALSE), Cf(2, None, 1, FALSE)}]
AllPrograms(sl) ==
    UNION {{[cfg |-> c, progs |-> <<p1, p2>>] : p1 \in SeqsOf(c, 1), p2 \in SeqsOf(c, 2)} : c \in AllCfgs[sl]}
AllSlices == [all_unit |-> "unit", all_wgt |-> "wgt", all_exp |-> "exp"]
IsAll == Prog \in DOMAIN AllSlices
OpCode(o) == CASE o.op = "Insert" -> o.k + 2 * o.w
                [] o.op = "Get" -> 7
                [] o.op = "Invalidate" -> 8
                [] o.op = "InvalidateAll" -> 9
                [] o.op = "Sync" -> 10
                [] OTHER -> 11
SeqCode(p) == IF Len(p) = 1 THEN OpCode(p[1]) ELSE 13 * OpCode(p[1]) + OpCode(p[2]) + 157
ProgCode(x) == 331 * SeqCode(x.progs[1]) + SeqCode(x.progs[2])
ProgSet == IF IsAll
           THEN {x \in AllPrograms(AllSlices[Prog]) :
                   /\ HasInsert(x.progs[1]) \/ HasInsert(x.progs[2])
                   /\ PickM = 0 \/ ProgCode(x) % PickM = PickR}
           ELSE {Programs[Prog]}
P == pp

\* after all threads have stopped: maintenance to quiescence, then the final observation
Settle(s) == Canon(DoSync(DoSync([s EXCEPT !.mx = <<>>])))
\* the refill of C03: invalidate everything, then insert max_capacity fresh unit-weight entries
RECURSIVE InvAll(_, _)
InvAll(s, k) == IF k > NKeys THEN s ELSE InvAll(Invalidate(s, k), k + 1)
RECURSIVE FillUp(_, _, _)
FillUp(s, k, n) == IF n = 0 \/ k > NKeys THEN s ELSE FillUp(DoSync(Insert(s, k, 900 + k, 1)), k + 1, n - 1)
Refill(s) ==
    LET want == IF s.cfg.cap = None THEN NKeys ELSE Min(NKeys, s.cfg.cap)
        s1 == DoSync(InvAll(s, 1))
        s2 == FillUp([s1 EXCEPT !.now = s1.now + 3], 1, want)   \* beyond every expiry deadline in use
    IN [want |-> want, kept |-> Cardinality({k \in 1..want : Visible(s2, k) /\ s2.map[k].v = 900 + k})]

\* the probe of C03 (b): a fresh key whose weight is exactly the room that the values held leave
\* must be admitted without displacing anybody (the smallest key not resident, if there is one
\* and there is room)
ProbeKey(s) == LET F == {k \in Keys : ~s.map[k].p} IN IF F = {} THEN 0 ELSE CHOOSE k \in F : \A j \in F : k <= j
ProbeRoom(s) == IF s.cfg.cap = None THEN 1 ELSE s.cfg.cap - SeqSum([j \in DOMAIN ResOf(s) |-> ResOf(s)[j].tw])
ProbeOk(s) ==
    LET k == ProbeKey(s)
        room == ProbeRoom(s)
        w == IF s.cfg.weigher THEN room ELSE 1
        s2 == DoSync(Insert(s, k, 800 + k, w))
    IN k = 0 \/ room < 1 \/ (~s.cfg.weigher /\ room < 1) \/
       (/\ Visible(s2, k) /\ s2.map[k].v = 800 + k
        /\ \A j \in Keys : Visible(s, j) => (Visible(s2, j) /\ s2.map[j].v = s.map[j].v))

SumRes(s) == SeqSum([j \in DOMAIN ResOf(s) |-> ResOf(s)[j].tw])   \* the weights of the values held
FinalOk(s) ==
    /\ s.ec = Len(ResOf(s)) /\ s.ws = SumRes(s)                       \* C10
    /\ s.cfg.cap # None => SumRes(s) <= s.cfg.cap                     \* C04
    /\ s.rch = <<>> /\ s.wch = <<>>
    /\ ProbeOk(s)                                                     \* C03 (b)
    /\ Refill(s).kept = Refill(s).want                                \* C03 (c)

OpId(t, ip) == t * 100 + ip

Init == /\ pp \in ProgSet
        /\ g = GInit(pp.cfg, pp.progs) /\ ps = P02Init /\ bad = {} /\ fin = FALSE /\ h = <<>>

StepT(t) ==
    /\ Enabled(g, t)
    /\ LET th == g.th[t]
           o == th.prog[th.ip]
           starting == th.pc = ""
           g2 == Step(g, t)
           finished == g2.th[t].ip > th.ip
           inv == [ev |-> "Inv", t |-> t, id |-> OpId(t, th.ip), op |-> o.op, now |-> g.s.now,
                   k |-> IF "k" \in DOMAIN o THEN o.k ELSE 0, v |-> IF "v" \in DOMAIN o THEN o.v ELSE 0]
           ret == [ev |-> "Ret", t |-> t, id |-> OpId(t, th.ip), r |-> g2.th[t].res, now |-> g2.s.now]
           ps1 == IF starting THEN P02Update(ps, inv) ELSE ps
           okr == ~finished \/ Allowed_C02(ps1, ret)
           ok5 == ~finished \/ Allowed_C05c(P.cfg, ps1, ret)
           ok6 == ~finished \/ Allowed_C06c(P.cfg, ps1, ret)
           ps2 == IF finished THEN P02Update(ps1, ret) ELSE ps1
       IN /\ g' = GCanon(g2)
          /\ ps' = ps2
          /\ bad' = (IF okr THEN {} ELSE {"C02"}) \cup (IF ok5 THEN {} ELSE {"C05"}) \cup (IF ok6 THEN {} ELSE {"C06"})
          /\ h' = IF Emit THEN Append(h, t) ELSE h
          /\ UNCHANGED <<fin, pp>>
          /\ (Emit => PrintT(<<"EDGE", ToJson([prog |-> Prog, cfg |-> P.cfg, progs |-> P.progs, sched |-> h', tag |-> PcAt(th),
                                               last |-> [pcs |-> [u \in TIds |-> PcAt(g2.th[u])],
                                                         res |-> ResOf(g2.s), rlen |-> Len(g2.s.rch),
                                                         wlen |-> Len(g2.s.wch)]])>>))

Finale ==
    /\ AllDone(g) /\ ~fin /\ g.s.crash = ""
    /\ LET s2 == Settle(g.s)
           e == [ev |-> "Final", items |-> IterItems(s2)]
       IN /\ g' = [g EXCEPT !.s = s2]
          /\ bad' = (IF Allowed_C02(ps, e) THEN {} ELSE {"C02"}) \cup (IF FinalOk(s2) THEN {} ELSE {"FINAL"})
                     \cup (IF Allowed_C03c(P.cfg, ps, e) THEN {} ELSE {"C03"})
          /\ fin' = TRUE
          /\ UNCHANGED <<ps, h, pp>>

Next == (\E t \in TIds : StepT(t)) \/ Finale

Spec == Init /\ [][Next]_vars
FairSpec == Spec /\ \A t \in TIds : WF_vars(StepT(t)) /\ WF_vars(Finale)

Ok == bad = {}
NoCrash == g.s.crash = ""
\* C09: some thread can always move until all have finished (checked as an invariant, since a
\* finished program legitimately has no successor)
NoDeadlock == AllDone(g) \/ \E t \in TIds : Enabled(g, t)
Terminates == <>fin
Stop == bad = {} /\ g.s.crash = ""
=============================================================================
