---------------------------- MODULE TraceBuilder ----------------------------
(* Trace validation for property C17: Build / Follow / Twin events recorded  *)
(* from the real builders, judged by the monitor and compared with Builder.  *)
EXTENDS Builder, Json, IOUtils

Rec == ndJsonDeserialize(IOEnv.TRACE)
VARIABLES l, ps, cur, bid, failed, stats
vars == <<l, ps, cur, bid, failed, stats>>

Init == l = 1 /\ ps = PInit17 /\ cur = [none |-> TRUE] /\ bid = -1 /\ failed = FALSE
        /\ stats = [events |-> 0, behaviours |-> 0, conform |-> 0, drift |-> 0, nt |-> 0, viol |-> 0]

Next ==
    /\ l <= Len(Rec) /\ l' = l + 1
    /\ LET e == Rec[l]
           isB == e.ev = "Build"
           good == (failed /\ ~isB) \/ Allowed_C17(ps, e)
           \* Layer I: what Builder.tla predicts for this configuration
           agrees == CASE isB -> BuildOf(e).panicked = e.panicked /\ (~e.panicked => BuildOf(e).policy = e.policy)
                       [] e.ev = "Follow" -> FollowOf(cur) = e.obs
                       [] OTHER -> TRUE
           st1 == [stats EXCEPT !.events = @ + 1, !.behaviours = IF isB THEN @ + 1 ELSE @,
                                !.conform = IF agrees THEN @ + 1 ELSE @, !.drift = IF agrees THEN @ ELSE @ + 1,
                                !.nt = IF e.ev \in {"Build", "Twin"} THEN @ + 1 ELSE @,
                                !.viol = IF good THEN @ ELSE @ + 1]
       IN /\ (~good => PrintT(<<"VIOL", "C17", IF isB THEN e.id ELSE bid, l>>))
          /\ (~agrees => PrintT(<<"DRIFT", IF isB THEN e.id ELSE bid, l>>))
          /\ ps' = PUpdate17(ps, e)
          /\ cur' = IF isB THEN [cap |-> e.cap, ttl |-> e.ttl, tti |-> e.tti, weigher |-> e.weigher] ELSE cur
          /\ bid' = IF isB THEN e.id ELSE bid
          /\ failed' = IF isB THEN ~good ELSE (failed \/ ~good)
          /\ stats' = st1
          /\ (l = Len(Rec) => PrintT(<<"STATS", ToJson(st1)>>))

Spec == Init /\ [][Next]_vars
Consumed == TLCGet("stats").diameter = Len(Rec) + 1
=============================================================================
