----------------------------- MODULE TracePair -----------------------------
(* The monitor of property C15 (contains_key and iteration are pure          *)
(* observations), a metamorphic pair monitor: trace A is a history h, trace  *)
(* B is the same history with extra contains_key / iter calls (flagged       *)
(* "extra" by the driver that inserted them) executed on a second, equally   *)
(* configured cache.  The two are walked in lock-step; extra events are      *)
(* skipped; every other event must agree in operation, arguments and result. *)
EXTENDS Common, TLC, Json, IOUtils

RecA == ndJsonDeserialize(IOEnv.TRACE_A)
RecB == ndJsonDeserialize(IOEnv.TRACE_B)

VARIABLES i, j, bid, failed, stats
vars == <<i, j, bid, failed, stats>>

Init == i = 1 /\ j = 1 /\ bid = -1 /\ failed = FALSE
        /\ stats = [events |-> 0, behaviours |-> 0, extras |-> 0, nt |-> 0, viol |-> 0]

IsExtra(e) == "extra" \in DOMAIN e /\ e.extra = TRUE
F(e, f, d) == IF f \in DOMAIN e THEN e[f] ELSE d

\* agreement of two events: operation, arguments and everything the caller can see
Same(a, b) ==
    /\ a.ev = b.ev
    /\ F(a, "k", 0) = F(b, "k", 0) /\ F(a, "v", 0) = F(b, "v", 0) /\ F(a, "w", 0) = F(b, "w", 0)
    /\ F(a, "d", 0) = F(b, "d", 0) /\ F(a, "now", 0) = F(b, "now", 0)
    /\ F(a, "r", 0) = F(b, "r", 0)
    /\ F(a, "items", <<>>) = F(b, "items", <<>>)
    /\ F(a, "msg", "") = F(b, "msg", "")

Done == i > Len(RecA) /\ j > Len(RecB)

Next ==
    /\ ~Done
    /\ IF j <= Len(RecB) /\ IsExtra(RecB[j])
       THEN /\ j' = j + 1 /\ i' = i /\ UNCHANGED <<bid, failed>>
            /\ stats' = [stats EXCEPT !.extras = @ + 1]
       ELSE IF i > Len(RecA) \/ j > Len(RecB)
       THEN \* one trace ended before the other
            /\ PrintT(<<"VIOL", "C15", bid, j>>)
            /\ i' = Len(RecA) + 1 /\ j' = Len(RecB) + 1 /\ UNCHANGED <<bid, failed>>
            /\ stats' = [stats EXCEPT !.viol = @ + 1]
       ELSE LET a == RecA[i]  b == RecB[j]
                isCfg == a.ev = "Config"
                good == Same(a, b)
            IN /\ ((~good /\ (~failed \/ isCfg)) => PrintT(<<"VIOL", "C15", IF isCfg THEN a.id ELSE bid, j>>))
               /\ i' = i + 1 /\ j' = j + 1
               /\ bid' = IF isCfg THEN a.id ELSE bid
               /\ failed' = IF isCfg THEN ~good ELSE (failed \/ ~good)
               /\ stats' = [stats EXCEPT !.events = @ + 1, !.behaviours = IF isCfg THEN @ + 1 ELSE @,
                                         !.nt = IF a.ev \in {"Get", "Contains", "Iter"} THEN @ + 1 ELSE @,
                                         !.viol = IF good \/ (failed /\ ~isCfg) THEN @ ELSE @ + 1]
    /\ ((i' > Len(RecA) /\ j' > Len(RecB)) => PrintT(<<"STATS", ToJson(stats')>>))

Spec == Init /\ [][Next]_vars
Consumed == TRUE
=============================================================================
