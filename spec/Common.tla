------------------------------- MODULE Common -------------------------------
(* Small helpers shared by the implementation specifications (Layer I), the  *)
(* property monitors (Layer P) and the trace specifications.                 *)
EXTENDS Naturals, Integers, Sequences, FiniteSets

None == -1                      \* "no value" for integer fields (JSON has no null here)

Max(a, b) == IF a >= b THEN a ELSE b
Min(a, b) == IF a <= b THEN a ELSE b
SatSub(a, b) == IF a >= b THEN a - b ELSE 0

Range(f) == {f[i] : i \in DOMAIN f}

RECURSIVE SeqSum(_)
SeqSum(q) == IF q = <<>> THEN 0 ELSE Head(q) + SeqSum(Tail(q))

RECURSIVE SetSum(_, _)
\* sum of F[x] over the set S
SetSum(S, F) == IF S = {} THEN 0
                ELSE LET x == CHOOSE y \in S : TRUE IN F[x] + SetSum(S \ {x}, F)

\* q without every occurrence of x
Without(q, x) == SelectSeq(q, LAMBDA y : y # x)

\* q without the members of S
WithoutSet(q, S) == SelectSeq(q, LAMBDA y : y \notin S)

MoveToBack(q, x) == IF \E i \in DOMAIN q : q[i] = x THEN Append(Without(q, x), x) ELSE q

InSeq(q, x) == \E i \in DOMAIN q : q[i] = x

NoDup(q) == \A i, j \in DOMAIN q : i # j => q[i] # q[j]

\* The elements of a set of integers as an ascending sequence.
RECURSIVE SortedSeq(_)
SortedSeq(S) == IF S = {} THEN <<>>
                ELSE LET m == CHOOSE x \in S : \A y \in S : x <= y
                     IN <<m>> \o SortedSeq(S \ {m})

Prefix(q, n) == SubSeq(q, 1, n)

\* Length of the shortest prefix of the key sequence q whose summed W[.] is at
\* least need; Len(q) + 1 if there is none.  need = 0 gives 0.
RECURSIVE ShortestPrefix(_, _, _, _, _)
ShortestPrefix(q, W, need, i, acc) ==
    IF acc >= need THEN i
    ELSE IF i >= Len(q) THEN Len(q) + 1
    ELSE ShortestPrefix(q, W, need, i + 1, acc + W[q[i + 1]])

=============================================================================
