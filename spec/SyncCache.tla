----------------------------- MODULE SyncCache -----------------------------
(* Layer I: what src/sync/{cache,base_cache}.rs does.                        *)
(*                                                                           *)
(* Every operation has a foreground part (one access to the concurrent hash  *)
(* map, the linearization point, then a record appended to a bounded         *)
(* channel) and a maintenance part (Inner::sync under the deques mutex) run  *)
(* by whichever call finds housekeeping due, or by an explicit sync().       *)
(*                                                                           *)
(*   map    Keys -> [p, v, i]     the DashMap: value and the id of the       *)
(*                                EntryInfo shared by all versions of an     *)
(*                                entry since its key was last absent        *)
(*   info   InfoIds -> [k, adm, dirty, la, lm, w]   EntryInfo (+ its key)    *)
(*   ao,wo  access-order ("probation") and write-order deques; a node is     *)
(*          named by the EntryInfo it points to (an EntryInfo has at most    *)
(*          one node per deque); front = oldest                              *)
(*   rch    read channel:  [hit, k, i, ts]                                   *)
(*   wch    write channel: [t ("U" upsert / "R" remove), k, i, ow, nw, n]    *)
(*   ec,ws  published entry_count / weighted_size                            *)
(*   va     valid_after (None until invalidate_all)                          *)
(*   hk     clock reading of the last housekeeping attempt (sync_after-500ms)*)
(*   crash  what went wrong inside the library, "" if nothing                *)
(*   infl   records held by client threads between their map access and      *)
(*          their send (always empty between the calls of one client)        *)
(*                                                                           *)
(* This module gives the sequential-client semantics (every call runs to     *)
(* completion) as functions of the state; SyncConc.tla interleaves the same  *)
(* operators at their switch points.                                         *)
EXTENDS Common, TLC

CONSTANTS NKeys, MaxInfo,
          RLog, WLog,       \* channel sizes (384)
          Flush,            \* flush point (64)
          MaxRepeats,       \* MAX_SYNC_REPEATS (4)
          SBatch,           \* EVICTION_BATCH_SIZE (500)
          Period,           \* sketch sample size
          Dev               \* deviations of the code from the intended design

Keys == 1..NKeys
InfoIds == 1..MaxInfo

\* n: which version of the entry this is (stands for the identity of the ValueEntry);
\* ver: the version most recently written under this EntryInfo
NoEntry == [p |-> FALSE, v |-> 0, i |-> 0, n |-> 0, tw |-> 0]
NoInfo == [k |-> 0, adm |-> FALSE, dirty |-> FALSE, la |-> None, lm |-> None, w |-> 0, ver |-> 0]

SInit(cfg) ==
    [cfg |-> cfg, map |-> [k \in Keys |-> NoEntry], info |-> [i \in InfoIds |-> NoInfo],
     ao |-> <<>>, wo |-> <<>>, rch |-> <<>>, wch |-> <<>>, ec |-> 0, ws |-> 0, va |-> None,
     cnt |-> [k \in Keys |-> 0], fsize |-> 0, son |-> FALSE, aged |-> FALSE,
     hk |-> 0, now |-> 0, crash |-> "", mx |-> <<>>, infl |-> {}]

HasExpiry(s) == s.cfg.ttl # None \/ s.cfg.tti # None
HasTtl(s) == s.cfg.ttl # None

\* ids referenced from anywhere: the rest is garbage and may be reused
Referenced(s) ==
    {s.map[k].i : k \in {k2 \in Keys : s.map[k2].p}} \cup Range(s.ao) \cup Range(s.wo)
    \cup {s.rch[j].i : j \in {j2 \in DOMAIN s.rch : s.rch[j2].hit}}
    \cup {s.wch[j].i : j \in DOMAIN s.wch}
    \cup {r.i : r \in {x \in s.infl : x.t \in {"U", "R"} \/ (x.t = "H" /\ x.hit)}}
FreshInfo(s) == IF InfoIds \ Referenced(s) = {} THEN 0
                ELSE CHOOSE i \in InfoIds \ Referenced(s) : \A j \in InfoIds \ Referenced(s) : i <= j

Crash(s, what) == IF s.crash = "" THEN [s EXCEPT !.crash = what] ELSE s
EmitMx(s, ev) == [s EXCEPT !.mx = Append(s.mx, ev)]

\* is_expired_entry_wo / _ao on an EntryInfo
ExpWoI(s, x) == x.lm # None /\ ((s.va # None /\ x.lm < s.va) \/
                                (s.cfg.ttl # None /\ x.lm + s.cfg.ttl <= s.now))
ExpAoI(s, x) == x.la # None /\ ((s.va # None /\ x.la < s.va) \/
                                (s.cfg.tti # None /\ x.la + s.cfg.tti <= s.now))
Visible(s, k) == s.map[k].p /\ ~ExpWoI(s, s.info[s.map[k].i]) /\ ~ExpAoI(s, s.info[s.map[k].i])

-----------------------------------------------------------------------------
(* The frequency sketch (same abstraction as in UnsyncCache)                 *)

Freq(s, k) == IF s.son THEN s.cnt[k] ELSE 0
Class(s, k) == IF s.cfg.hconst THEN Keys ELSE {k}

SketchReset(s) ==
    LET odd == IF s.cfg.hconst THEN (IF s.cnt[1] % 2 = 1 THEN 1 ELSE 0)
               ELSE Cardinality({k \in Keys : s.cnt[k] % 2 = 1})
        half == [k \in Keys |-> s.cnt[k] \div 2]
    IN IF "F8" \in Dev
       THEN IF (s.fsize \div 2) < odd
            THEN Crash([s EXCEPT !.cnt = half, !.aged = TRUE], "sketch reset: subtract with overflow")
            ELSE [s EXCEPT !.cnt = half, !.fsize = (s.fsize \div 2) - odd, !.aged = TRUE]
       ELSE IF s.fsize < odd
            THEN Crash([s EXCEPT !.cnt = half, !.aged = TRUE], "sketch reset: subtract with overflow")
            ELSE [s EXCEPT !.cnt = half, !.fsize = (s.fsize - odd) \div 2, !.aged = TRUE]

SketchIncrement(s, k) ==
    IF ~s.son \/ s.cnt[k] >= 15 THEN s
    ELSE LET s1 == [s EXCEPT !.cnt = [j \in Keys |-> IF j \in Class(s, k) THEN s.cnt[j] + 1 ELSE s.cnt[j]],
                             !.fsize = s.fsize + 1]
         IN IF s1.fsize >= Period THEN SketchReset(s1) ELSE s1

-----------------------------------------------------------------------------
(* Deque helpers: nodes are named by info ids                                *)

MoveBackAo(s, i) == [s EXCEPT !.ao = MoveToBack(s.ao, i)]
MoveBackWo(s, i) == [s EXCEPT !.wo = MoveToBack(s.wo, i)]
FrontToBack(q) == IF q = <<>> THEN q ELSE Append(Tail(q), Head(q))

\* handle_remove / handle_remove_with_deques on the entry whose EntryInfo is i.
\* c = <<entry_count, weighted_size>> are the working counters of this maintenance run.
HandleRemove(s, c, i) ==
    IF s.info[i].adm
    THEN IF c[1] = 0
         THEN <<Crash(s, "entry_count underflow"), c>>
         ELSE <<[s EXCEPT !.info[i].adm = FALSE, !.ao = Without(s.ao, i), !.wo = Without(s.wo, i)],
                <<c[1] - 1, SatSub(c[2], s.info[i].w)>>>>
    ELSE \* unset_q_nodes: forgets the node pointers without unlinking
         <<IF InSeq(s.ao, i) \/ InSeq(s.wo, i)
           THEN Crash([s EXCEPT !.ao = Without(s.ao, i), !.wo = Without(s.wo, i)], "node pointers dropped while linked (leak)")
           ELSE s, c>>

\* remove whatever the map holds under key k (cache.remove(key))
MapRemove(s, k) == [s EXCEPT !.map[k] = NoEntry]

\* handle_admit
HandleAdmit(s0, c, i, nw) ==
    LET s == IF InSeq(s0.ao, i) \/ InSeq(s0.wo, i)
             THEN Crash(s0, "second deque node for one EntryInfo (leak)") ELSE s0 IN
    <<[s EXCEPT !.ao = Append(Without(s.ao, i), i),
                !.wo = IF HasTtl(s) THEN Append(Without(s.wo, i), i) ELSE s.wo,
                !.info[i].adm = TRUE,
                !.info[i].w = IF "F9" \in Dev THEN @ ELSE nw],
      <<c[1] + 1, c[2] + nw>>>>

-----------------------------------------------------------------------------
(* Maintenance: applying one read record                                     *)

ApplyRead(s, r) ==
    \* (the hook names the key of a hit through the entry's access-order node, -1 if it has none;
    \* a miss carries no key)
    IF ~r.hit THEN EmitMx(SketchIncrement(s, r.k), [t |-> "read.miss", k |-> -1])
    ELSE LET s1 == EmitMx(SketchIncrement(s, r.k), [t |-> "read.hit", k |-> IF InSeq(s.ao, r.i) THEN s.info[r.i].k ELSE -1])
             s2 == [s1 EXCEPT !.info[r.i].la =
                       IF "F6" \in Dev THEN r.ts ELSE Max(@, r.ts)]
         IN IF s2.info[r.i].adm THEN MoveBackAo(s2, r.i) ELSE s2

-----------------------------------------------------------------------------
(* Maintenance: expiry and eviction scans                                    *)

\* try_skip_updated_entry on the probation deque (front node has key k)
\* (F12 repaired: a node whose key has left the map, its removal still being queued, is
\* released at once through its EntryInfo; the queued removal then finds nothing to do)
TrySkip(s, c, k) ==
    IF s.map[k].p
    THEN IF s.map[k].i # Head(s.ao) /\ "F12" \notin Dev
         THEN \* the front node is a leftover of an earlier entry of this key: release it
              LET r == HandleRemove(EmitMx(s, [t |-> "release.stale", k |-> k]), c, Head(s.ao))
              IN <<r[1], TRUE, r[2]>>
         ELSE IF s.info[s.map[k].i].dirty
         THEN LET s0 == IF s.map[k].i # Head(s.ao) THEN EmitMx(s, [t |-> "skip.stale", k |-> k]) ELSE s
                  s1 == EmitMx(s0, [t |-> "skip.dirty", k |-> k])
              IN <<MoveBackWo(MoveBackAo(s1, s.map[k].i), s.map[k].i), TRUE, c>>
         ELSE <<s, FALSE, c>>
    ELSE IF "F12" \in Dev
         THEN <<EmitMx([s EXCEPT !.ao = FrontToBack(s.ao)], [t |-> "skip.absent", k |-> k]), TRUE, c>>
    ELSE LET r == HandleRemove(EmitMx(s, [t |-> "release.absent", k |-> k]), c, Head(s.ao))
         IN <<r[1], TRUE, r[2]>>

RECURSIVE RmExpWo(_, _, _)
RmExpWo(s, c, n) ==
    IF n = 0 \/ s.wo = <<>> THEN <<s, c>>
    ELSE LET j == Head(s.wo)
             k == s.info[j].k
         IN IF ~ExpWoI(s, s.info[j]) THEN <<s, c>>
            ELSE IF s.map[k].p /\ ExpWoI(s, s.info[s.map[k].i])
            THEN LET m == s.map[k].i
                     r == HandleRemove(EmitMx(MapRemove(s, k), [t |-> "expire.wo", k |-> k]), c, m)
                 IN RmExpWo(r[1], r[2], n - 1)
            ELSE IF s.map[k].p
            THEN IF s.info[s.map[k].i].dirty
                 THEN RmExpWo(MoveBackWo(MoveBackAo(EmitMx(s, [t |-> "skip.dirty", k |-> k]), s.map[k].i), s.map[k].i), c, n - 1)
                 ELSE <<s, c>>
            ELSE IF "F12" \in Dev
                 THEN RmExpWo(EmitMx([s EXCEPT !.wo = FrontToBack(s.wo)], [t |-> "skip.absent", k |-> k]), c, n - 1)
            ELSE LET r == HandleRemove(EmitMx(s, [t |-> "release.absent", k |-> k]), c, j)
                 IN RmExpWo(r[1], r[2], n - 1)

\* the test used by the access-order purge scan
ExpAoScan(s, x) == ExpAoI(s, x) \/ ("F7" \notin Dev /\ s.va # None /\ x.lm # None /\ x.lm < s.va)

RECURSIVE RmExpAo(_, _, _)
RmExpAo(s, c, n) ==
    IF n = 0 \/ s.ao = <<>> THEN <<s, c>>
    ELSE LET j == Head(s.ao)
             k == s.info[j].k
         IN IF ~ExpAoScan(s, s.info[j]) THEN <<s, c>>
            ELSE IF s.map[k].p /\ ExpAoScan(s, s.info[s.map[k].i])
            THEN LET m == s.map[k].i
                     r == HandleRemove(EmitMx(MapRemove(s, k), [t |-> "expire.ao", k |-> k]), c, m)
                 IN RmExpAo(r[1], r[2], n - 1)
            ELSE LET t == TrySkip(s, c, k)
                 IN IF t[2] THEN RmExpAo(t[1], t[3], n - 1) ELSE <<s, c>>

EvictExpired(s, c) ==
    LET r1 == IF HasTtl(s) THEN RmExpWo(s, c, SBatch) ELSE <<s, c>>
    IN IF s.cfg.tti # None \/ s.va # None THEN RmExpAo(r1[1], r1[2], SBatch) ELSE r1

RECURSIVE RmLru(_, _, _, _, _)
RmLru(s, c, n, need, evicted) ==
    IF n = 0 \/ evicted >= need \/ s.ao = <<>> THEN <<s, c>>
    ELSE LET j == Head(s.ao)
             k == s.info[j].k
         IN IF s.info[j].dirty \/ s.info[j].lm = None
            THEN LET t == TrySkip(s, c, k)
                 IN IF t[2] THEN RmLru(t[1], t[3], n - 1, need, evicted) ELSE <<s, c>>
            ELSE IF s.map[k].p /\ s.info[s.map[k].i].lm = s.info[j].lm
            THEN LET m == s.map[k].i
                     w == s.info[m].w
                     r == HandleRemove(EmitMx(MapRemove(s, k), [t |-> "evict", k |-> k]), c, m)
                 IN RmLru(r[1], r[2], n - 1, need, evicted + w)
            ELSE LET t == TrySkip(s, c, k)
                 IN IF t[2] THEN RmLru(t[1], t[3], n - 1, need, evicted) ELSE <<s, c>>

-----------------------------------------------------------------------------
(* Maintenance: applying one write record                                    *)

FitsC(s, c, nw) == s.cfg.cap = None \/ c[2] + nw <= s.cfg.cap


\* admit(): walk the access-order deque from the front.
\* returns [n: nodes looked at, vics, skipped: sequences of nodes, vw, vf]
RECURSIVE AdmitWalk(_, _, _, _, _, _, _, _, _)
AdmitWalk(s, cw, cf, pos, vics, skipped, vw, vf, retries) ==
    IF vw >= cw \/ cf < vf \/ pos > Len(s.ao) THEN [vics |-> vics, skipped |-> skipped, vw |-> vw, vf |-> vf]
    ELSE LET j == s.ao[pos]
             kj == s.info[j].k
         IN IF s.map[kj].p
            THEN AdmitWalk(s, cw, cf, pos + 1, Append(vics, j), skipped,
                           vw + s.info[s.map[kj].i].w, vf + Freq(s, kj), 0)
            ELSE IF retries + 1 > 5
                 THEN [vics |-> vics, skipped |-> Append(skipped, j), vw |-> vw, vf |-> vf]
                 ELSE AdmitWalk(s, cw, cf, pos + 1, vics, Append(skipped, j), vw, vf, retries + 1)

\* remove the victims one by one; a victim node freed by an earlier removal is a use-after-free
RECURSIVE RemoveVictims(_, _, _, _)
RemoveVictims(s, c, vics, skipped) ==
    IF vics = <<>> THEN <<s, c, skipped>>
    ELSE LET j == Head(vics) IN
         IF ~InSeq(s.ao, j)
         THEN <<Crash(s, "use of a freed deque node (victim)"), c, skipped>>
         ELSE LET kj == s.info[j].k IN
              IF s.map[kj].p
              THEN LET m == s.map[kj].i
                       s1 == EmitMx(MapRemove(s, kj), [t |-> "victim.rm", k |-> kj])
                       r == HandleRemove(s1, c, m)
                   IN RemoveVictims(r[1], r[2], Tail(vics), skipped)
              ELSE RemoveVictims(s, c, Tail(vics), Append(skipped, j))

RECURSIVE SkippedToBack(_, _)
SkippedToBack(s, skipped) ==
    IF skipped = <<>> THEN s
    ELSE IF ~InSeq(s.ao, Head(skipped))
         THEN Crash(s, "use of a freed deque node (skipped)")
         ELSE SkippedToBack(MoveBackAo(s, Head(skipped)), Tail(skipped))

\* The part of handle_upsert after the residency check of a record whose entry has not been
\* admitted yet.  The check is one access to the map and its guard is released before the
\* function goes on: other threads may write or remove the key in between (switch point m.w2
\* in SyncConc.tla), so everything below reads the state again.  It comes in two halves:
\* UpsertDecide runs up to the point where the candidate's own map entry is to be removed
\* (dead already / oversize / lost the contest), UpsertFinish is that removal, one more access
\* to the map (remove_if: only if the map still holds the very value of this record; switch
\* point m.w3), and the skipped nodes going to the back.
\* UpsertDecide returns [kind, s, c, skipped], kind = "done" when nothing is left to do.
UpsertDecide(sA, c0, r) ==
    LET i == r.i
        Done(rc) == [kind |-> "done", s |-> rc[1], c |-> rc[2], skipped |-> <<>>]
    IN
    IF "F14" \notin Dev /\ (ExpWoI(sA, sA.info[i]) \/ ExpAoI(sA, sA.info[i]))
       THEN \* F14 repaired: a candidate that is dead already (expired, or written before an
            \* invalidate_all) takes no part in a contest and displaces nobody
            [kind |-> "dead", s |-> EmitMx(sA, [t |-> "upsert.dead", k |-> r.k]), c |-> c0, skipped |-> <<>>]
       ELSE
       LET \* F10 repaired: room held by expired or invalidated entries is reclaimed before a
           \* candidate that does not fit is judged
           pg == IF "F10" \notin Dev /\ ~FitsC(sA, c0, r.nw) /\ (HasExpiry(sA) \/ sA.va # None)
                 THEN EvictExpired(sA, c0) ELSE <<sA, c0>>
           s == pg[1]
           c == pg[2]
       IN IF FitsC(s, c, r.nw)
       THEN Done(HandleAdmit(EmitMx(s, [t |-> "upsert.fit", k |-> r.k]), c, i, r.nw))
       ELSE IF r.nw > s.cfg.cap
       THEN [kind |-> "oversize", s |-> EmitMx(s, [t |-> "upsert.oversize", k |-> r.k]), c |-> c, skipped |-> <<>>]
       ELSE LET a == AdmitWalk(s, r.nw, Freq(s, r.k), 1, <<>>, <<>>, 0, 0, 0)
            IN IF a.vw >= r.nw /\ Freq(s, r.k) > a.vf
               THEN LET rv == RemoveVictims(EmitMx(s, [t |-> "upsert.admit", k |-> r.k]), c, a.vics, a.skipped)
                        ad == HandleAdmit(rv[1], rv[2], i, r.nw)
                        Wit(st, sk) == IF sk = <<>> THEN st ELSE EmitMx(st, [t |-> "admit.skipped", k |-> -1])
                    IN IF rv[1].crash # "" THEN Done(<<rv[1], rv[2]>>)
                       ELSE Done(<<SkippedToBack(Wit(ad[1], rv[3]), rv[3]), ad[2]>>)
               ELSE [kind |-> "reject", s |-> EmitMx(s, [t |-> "upsert.reject", k |-> r.k]), c |-> c,
                     skipped |-> a.skipped]

UpsertFinish(s, c, r, d) ==
    LET Current(st) == st.map[r.k].p /\ st.map[r.k].i = r.i /\ st.map[r.k].n = r.n
        \* (F5: the removal was by key; the dead-candidate branch came with the repair of F14 and
        \* has always compared values)
        s1 == IF Current(s) \/ ("F5" \in Dev /\ d.kind # "dead") THEN MapRemove(s, r.k) ELSE s
        s2 == IF d.skipped = <<>> THEN s1 ELSE EmitMx(s1, [t |-> "admit.skipped", k |-> -1])
    IN <<SkippedToBack(s2, d.skipped), c>>

HandleUpsertB(sA, c0, r) ==
    LET d == UpsertDecide(sA, c0, r)
    IN IF d.kind = "done" THEN <<d.s, d.c>> ELSE UpsertFinish(d.s, d.c, r, d)

HandleUpsert(s0, c0, r) ==
    LET sA == [s0 EXCEPT !.info[r.i].dirty = FALSE]
        i == r.i
        \* is the map's entry the very ValueEntry this record carries?
        Current(st) == st.map[r.k].p /\ st.map[r.k].i = i /\ st.map[r.k].n = r.n
    IN IF sA.info[i].adm
       THEN IF "F9" \in Dev
            THEN <<EmitMx(MoveBackWo(MoveBackAo(sA, i), i), [t |-> "upsert.update", k |-> r.k]),
                   <<c0[1], SatSub(c0[2], r.ow) + r.nw>>>>
            ELSE IF "F16" \in Dev \/ Current(sA)
            THEN <<EmitMx(MoveBackWo(MoveBackAo([sA EXCEPT !.info[i].w = r.nw], i), i),
                          [t |-> "upsert.update", k |-> r.k]),
                   <<c0[1], SatSub(c0[2], sA.info[i].w) + r.nw>>>>
            \* F16 repaired: the record of a value that has been replaced since (two threads wrote
            \* the key and queued their records in the opposite order) leaves the counted weight alone
            ELSE <<EmitMx(MoveBackWo(MoveBackAo(sA, i), i), [t |-> "upsert.update", k |-> r.k]), c0>>
       ELSE IF "F5" \notin Dev /\ ~(sA.map[r.k].p /\ sA.map[r.k].i = i)
       THEN \* the entry left the map before it was admitted: nothing to do
            <<sA, c0>>
       ELSE HandleUpsertB(sA, c0, r)

ApplyWrite(s, c, r) ==
    IF r.t = "U" THEN HandleUpsert(s, c, r)
    ELSE HandleRemove(EmitMx(s, [t |-> "remove", k |-> r.k]), c, r.i)

-----------------------------------------------------------------------------
(* Inner::sync                                                               *)

RECURSIVE ApplyReads(_, _)
ApplyReads(s, n) ==
    IF n = 0 \/ s.rch = <<>> THEN s
    ELSE ApplyReads(ApplyRead([s EXCEPT !.rch = Tail(s.rch)], Head(s.rch)), n - 1)

RECURSIVE ApplyWrites(_, _, _)
ApplyWrites(s, c, n) ==
    IF n = 0 \/ s.wch = <<>> \/ s.crash # "" THEN <<s, c>>
    ELSE LET r == ApplyWrite([s EXCEPT !.wch = Tail(s.wch)], c, Head(s.wch))
         IN ApplyWrites(r[1], r[2], n - 1)

MaybeEnableSketch(s, c) ==
    IF ~s.son /\ s.cfg.cap # None /\ c[2] >= s.cfg.cap \div 2 THEN [s EXCEPT !.son = TRUE] ELSE s

RECURSIVE SyncLoop(_, _, _)
SyncLoop(s, c, calls) ==
    LET s1 == ApplyReads(s, Len(s.rch))
        r == ApplyWrites(s1, c, Len(s1.wch))
        s2 == MaybeEnableSketch(r[1], r[2])
    IN IF (Len(s2.rch) >= Flush \/ Len(s2.wch) >= Flush) /\ calls + 1 <= MaxRepeats /\ s2.crash = ""
       THEN SyncLoop(s2, r[2], calls + 1) ELSE <<s2, r[2]>>

DoSync(s) ==
    LET c0 == <<s.ec, s.ws>>
        r1 == SyncLoop(EmitMx(s, [t |-> "sync.begin", k |-> -1]), c0, 0)
        r2 == IF r1[1].crash # "" THEN r1
              ELSE IF HasExpiry(s) \/ r1[1].va # None THEN EvictExpired(r1[1], r1[2]) ELSE r1
        need == IF s.cfg.cap = None THEN 0 ELSE SatSub(r2[2][2], s.cfg.cap)
        r3 == IF r2[1].crash = "" /\ need > 0 THEN RmLru(r2[1], r2[2], SBatch, need, 0) ELSE r2
    IN EmitMx([r3[1] EXCEPT !.ec = r3[2][1], !.ws = r3[2][2]], [t |-> "sync.end", k |-> -1])

\* Housekeeper::should_apply + try_sync, as a sequential client sees them
Housekeep(s, len) ==
    IF len >= Flush \/ s.hk >= s.now      \* `sync_after >= now` with sync_after = hk + 500 ms
    THEN DoSync([s EXCEPT !.hk = s.now]) ELSE s

-----------------------------------------------------------------------------
(* The API, sequential client                                                *)

Weigh(s, w) == IF s.cfg.weigher THEN w ELSE 1

\* schedule_write_op: housekeeping, then try_send; a full channel means sleep and retry
RECURSIVE SendWrite(_, _, _)
SendWrite(s, rec, fuel) ==
    LET s1 == Housekeep(s, Len(s.wch))
    IN IF s1.crash # "" THEN s1
       ELSE IF Len(s1.wch) < WLog THEN [s1 EXCEPT !.wch = Append(s1.wch, rec)]
       ELSE IF fuel = 0 THEN Crash(s1, "insert never completes: write channel stays full")
       ELSE SendWrite(s1, rec, fuel - 1)

\* the foreground part of insert: one atomic access to the map; <<state, write record>>
InsMap(s, k, v, w0) ==
    LET w == Weigh(s, w0)
    IN IF s.map[k].p
       THEN LET i == s.map[k].i
                ow == s.info[i].w
                n == s.info[i].ver + 1
            IN <<[s EXCEPT !.map[k].v = v, !.map[k].n = n, !.map[k].tw = w,
                           !.info[i] = [@ EXCEPT !.dirty = TRUE, !.la = s.now, !.lm = s.now, !.ver = n,
                                                 !.w = IF "F9" \in Dev THEN w ELSE @]],
                 [t |-> "U", k |-> k, i |-> i, ow |-> ow, nw |-> w, n |-> n]>>
       ELSE LET i == FreshInfo(s)
            IN IF i = 0 THEN <<Crash(s, "MODEL: out of info ids"), [t |-> "U", k |-> k, i |-> 1, ow |-> 0, nw |-> w, n |-> 1]>>
               ELSE <<[s EXCEPT !.map[k] = [p |-> TRUE, v |-> v, i |-> i, n |-> 1, tw |-> w],
                               !.info[i] = [k |-> k, adm |-> FALSE, dirty |-> TRUE,
                                            la |-> s.now, lm |-> s.now, w |-> w, ver |-> 1]],
                    [t |-> "U", k |-> k, i |-> i, ow |-> 0, nw |-> w, n |-> 1]>>

InvRec(s, k) == [t |-> "R", k |-> k, i |-> s.map[k].i, ow |-> 0, nw |-> 0, n |-> 0]

\* F15 (open; repaired design written out): an insert over an entry that is dead at the call
\* (expired, or written before an invalidate_all) does not revive its EntryInfo: the dead entry is
\* removed like an invalidation (its removal is queued) and the new value starts a fresh one.
\* As the code is, the new value shares the dead entry's EntryInfo, whose refreshed timestamps
\* hide from maintenance that the records still queued for it belong to a dead value.
Insert(s0, k, v, w0) ==
    LET s == [s0 EXCEPT !.aged = FALSE, !.mx = <<>>]
        sD == IF "F15" \notin Dev /\ s.map[k].p /\ ~Visible(s, k)
              THEN SendWrite(MapRemove(s, k), InvRec(s, k), 3) ELSE s
        r == InsMap(sD, k, v, w0)
    IN IF sD.crash # "" THEN sD
       ELSE IF r[1].crash # "" THEN r[1] ELSE SendWrite(r[1], r[2], 3)

\* the foreground part of get: <<read record, result>>
GetMap(s, k) ==
    IF Visible(s, k) THEN <<[hit |-> TRUE, k |-> k, i |-> s.map[k].i, ts |-> s.now], s.map[k].v>>
    ELSE <<[hit |-> FALSE, k |-> k, i |-> 0, ts |-> s.now], None>>

\* get: <<state, result>>
Get(s0, k) ==
    LET s == [s0 EXCEPT !.aged = FALSE, !.mx = <<>>]
        rec == GetMap(s, k)[1]
        res == GetMap(s, k)[2]
        s1 == Housekeep(s, Len(s.rch))
    IN <<IF Len(s1.rch) < RLog THEN [s1 EXCEPT !.rch = Append(s1.rch, rec)] ELSE s1, res>>

Contains(s, k) == <<[s EXCEPT !.aged = FALSE, !.mx = <<>>], Visible(s, k)>>

Invalidate(s0, k) ==
    LET s == [s0 EXCEPT !.aged = FALSE, !.mx = <<>>]
    IN IF ~s.map[k].p THEN s
       ELSE SendWrite(MapRemove(s, k), InvRec(s, k), 3)

InvalidateAll(s) == [s EXCEPT !.va = s.now, !.aged = FALSE, !.mx = <<>>]

IterItems(s) == LET ks == SortedSeq({k \in Keys : Visible(s, k)})
                IN [i \in DOMAIN ks |-> [k |-> ks[i], v |-> s.map[ks[i]].v]]

SyncOp(s) == DoSync([s EXCEPT !.aged = FALSE, !.mx = <<>>])

Advance(s, d) == [s EXCEPT !.now = s.now + d, !.aged = FALSE, !.mx = <<>>]

-----------------------------------------------------------------------------
(* Observable projection                                                     *)

ResOf(s) == LET ks == SortedSeq({k \in Keys : s.map[k].p})
            IN [j \in DOMAIN ks |->
                  LET x == s.info[s.map[ks[j]].i] IN
                  [k |-> ks[j], v |-> s.map[ks[j]].v, w |-> x.w, tw |-> s.map[ks[j]].tw, la |-> x.la, lm |-> x.lm,
                   adm |-> x.adm, dirty |-> x.dirty]]

NLive(s) == Cardinality({k \in Keys : s.map[k].p})
            + Cardinality(Referenced(s) \ {s.map[k].i : k \in {k2 \in Keys : s.map[k2].p}})

SSnap(s) == [res |-> ResOf(s),
             ao |-> [j \in DOMAIN s.ao |-> s.info[s.ao[j]].k],
             wo |-> [j \in DOMAIN s.wo |-> s.info[s.wo[j]].k],
             ec |-> s.ec, ws |-> s.ws,
             fq |-> [k \in Keys |-> Freq(s, k)], sk |-> [on |-> s.son, aged |-> s.aged],
             va |-> s.va, rlen |-> Len(s.rch), wlen |-> Len(s.wch), it |-> IterItems(s), dd |-> 0,
             \* key / value objects alive: one per resident, plus one per EntryInfo that is
             \* referenced (by a node or a queued record) without being in the map
             lk |-> NLive(s), lv |-> NLive(s)]

\* One API call: o is [op, k, v, w, d]
SDo(st, o) ==
    CASE o.op = "Insert" ->
           [s |-> Insert(st, o.k, o.v, o.w),
            ev |-> [ev |-> "Insert", k |-> o.k, v |-> o.v, w |-> Weigh(st, o.w), now |-> st.now]]
      [] o.op = "Get" ->
           LET r == Get(st, o.k) IN
           [s |-> r[1], ev |-> [ev |-> "Get", k |-> o.k, r |-> r[2], now |-> st.now]]
      [] o.op = "Contains" ->
           LET r == Contains(st, o.k) IN
           [s |-> r[1], ev |-> [ev |-> "Contains", k |-> o.k, r |-> r[2], now |-> st.now]]
      [] o.op = "Invalidate" ->
           [s |-> Invalidate(st, o.k), ev |-> [ev |-> "Invalidate", k |-> o.k, now |-> st.now]]
      [] o.op = "InvalidateAll" ->
           [s |-> InvalidateAll(st), ev |-> [ev |-> "InvalidateAll", now |-> st.now]]
      [] o.op = "Iter" ->
           [s |-> [st EXCEPT !.aged = FALSE, !.mx = <<>>],
            ev |-> [ev |-> "Iter", items |-> IterItems(st), now |-> st.now]]
      [] o.op = "Sync" ->
           [s |-> SyncOp(st), ev |-> [ev |-> "Sync", now |-> st.now]]
      [] o.op = "Advance" ->
           [s |-> Advance(st, o.d), ev |-> [ev |-> "Advance", d |-> o.d, now |-> st.now]]

SEventOf(r) == r.ev @@ [snap |-> SSnap(r.s), mx |-> r.s.mx]

\* Garbage (EntryInfos nobody references) and the per-call event log are not state.
PendingU(s, i) == \/ \E j \in DOMAIN s.wch : s.wch[j].t = "U" /\ s.wch[j].i = i
                  \/ \E r \in s.infl : r.t = "U" /\ r.i = i
Canon(s) == [s EXCEPT !.info = [i \in InfoIds |-> IF i \notin Referenced(s) THEN NoInfo
                                                  ELSE IF PendingU(s, i) THEN s.info[i]
                                                  ELSE [s.info[i] EXCEPT !.ver = 0]],
                      !.map = [k \in Keys |-> IF s.map[k].p /\ ~PendingU(s, s.map[k].i)
                                              THEN [s.map[k] EXCEPT !.n = 0] ELSE s.map[k]],
                      !.mx = <<>>]

=============================================================================
