---------------------------- MODULE UnsyncCache ----------------------------
(* Layer I: what src/unsync/cache.rs does, one operator per function of the  *)
(* code.  The cache is a deterministic sequential machine; a state is a      *)
(* record, an operation maps a state to a state and a result.                *)
(*                                                                           *)
(*   cfg   [cap, ttl, tti, weigher, hconst]   (None = not configured)        *)
(*   map   Keys -> [p, v, w, la, lm]  the HashMap; la lives in the access-   *)
(*         order node, lm in the write-order node (None when absent)         *)
(*   ao    access-order deque "probation", front = LRU, as a key sequence    *)
(*   wo    write-order deque (only used when ttl is configured)              *)
(*   ec, ws    entry_count, weighted_size                                    *)
(*   cnt   Keys -> 0..15: the four counters of a key in the sketch (hashes   *)
(*         with pairwise disjoint counters, or one shared class: hconst)     *)
(*   fsize, son    FrequencySketch.size, frequency_sketch_enabled            *)
(*   now   the mock clock                                                    *)
(*   panic set when the code would hit expect / unreachable / overflow       *)
EXTENDS Common, TLC

CONSTANTS NKeys,      \* keys are 1..NKeys
          Batch,      \* EVICTION_BATCH_SIZE (100)
          Period,     \* sample size of the sketch (10 * max(capacity,128))
          Dev         \* names of deviations of the code from the intended design

Keys == 1..NKeys

NoEntry == [p |-> FALSE, v |-> 0, w |-> 0, la |-> None, lm |-> None]

UInit(cfg) ==
    [cfg |-> cfg, map |-> [k \in Keys |-> NoEntry], ao |-> <<>>, wo |-> <<>>,
     ec |-> 0, ws |-> 0, cnt |-> [k \in Keys |-> 0], fsize |-> 0, son |-> FALSE,
     now |-> 0, panic |-> FALSE, aged |-> FALSE]

HasExpiry(s) == s.cfg.ttl # None \/ s.cfg.tti # None
HasTtl(s) == s.cfg.ttl # None
Ts(s) == IF HasExpiry(s) THEN s.now ELSE None     \* `timestamp` of a call

\* is_expired_entry_wo / _ao on an entry (or its node: same timestamps)
ExpWo(s, e) == e.lm # None /\ s.cfg.ttl # None /\ e.lm + s.cfg.ttl <= s.now
ExpAo(s, e) == e.la # None /\ s.cfg.tti # None /\ e.la + s.cfg.tti <= s.now
Expired(s, e) == ExpWo(s, e) \/ ExpAo(s, e)

-----------------------------------------------------------------------------
(* The frequency sketch, exact-count abstraction                             *)

Freq(s, k) == IF s.son THEN s.cnt[k] ELSE 0

\* keys sharing the counters of k
Class(s, k) == IF s.cfg.hconst THEN Keys ELSE {k}

SketchReset(s) ==
    LET odd == IF s.cfg.hconst
               THEN (IF s.cnt[1] % 2 = 1 THEN 1 ELSE 0)
               ELSE Cardinality({k \in Keys : s.cnt[k] % 2 = 1})
        half == [k \in Keys |-> s.cnt[k] \div 2]
    IN IF "F8" \in Dev
       THEN \* (size >> 1) - (count >> 2), checked subtraction
            IF (s.fsize \div 2) < odd
            THEN [s EXCEPT !.cnt = half, !.panic = TRUE, !.aged = TRUE]
            ELSE [s EXCEPT !.cnt = half, !.fsize = (s.fsize \div 2) - odd, !.aged = TRUE]
       ELSE IF s.fsize < odd
            THEN [s EXCEPT !.cnt = half, !.panic = TRUE, !.aged = TRUE]
            ELSE [s EXCEPT !.cnt = half, !.fsize = (s.fsize - odd) \div 2, !.aged = TRUE]

SketchIncrement(s, k) ==
    IF ~s.son \/ s.cnt[k] >= 15 THEN s
    ELSE LET s1 == [s EXCEPT !.cnt = [j \in Keys |-> IF j \in Class(s, k)
                                                      THEN s.cnt[j] + 1 ELSE s.cnt[j]],
                             !.fsize = s.fsize + 1]
         IN IF s1.fsize >= Period THEN SketchReset(s1) ELSE s1

\* should_enable_frequency_sketch / enable_frequency_sketch (after an admission)
MaybeEnableSketch(s) ==
    IF ~s.son /\ s.cfg.cap # None /\ s.ws >= s.cfg.cap \div 2
    THEN [s EXCEPT !.son = TRUE] ELSE s

-----------------------------------------------------------------------------
(* Removal of one resident entry: map, both deques                           *)

Unlink(s, k) == [s EXCEPT !.map[k] = NoEntry, !.ao = Without(s.ao, k),
                          !.wo = Without(s.wo, k)]

\* remove_expired_wo: returns <<state, count, weight>>
RECURSIVE RmExpWo(_, _, _, _)
RmExpWo(s, n, c, w) ==
    IF n = 0 \/ s.wo = <<>> THEN <<s, c, w>>
    ELSE LET k == Head(s.wo)
             e == s.map[k]
         IN IF ~ExpWo(s, e) THEN <<s, c, w>>
            ELSE RmExpWo(Unlink(s, k), n - 1, c + 1,
                         IF "F4" \in Dev THEN SatSub(w, e.w) ELSE w + e.w)

\* remove_expired_ao on the probation deque
RECURSIVE RmExpAo(_, _, _, _)
RmExpAo(s, n, c, w) ==
    IF n = 0 \/ s.ao = <<>> THEN <<s, c, w>>
    ELSE LET k == Head(s.ao)
             e == s.map[k]
         IN IF ~ExpAo(s, e) THEN <<s, c, w>>
            ELSE RmExpAo(Unlink(s, k), n - 1, c + 1, w + e.w)

EvictExpired(s) ==
    IF ~HasExpiry(s) THEN s
    ELSE LET r1 == IF HasTtl(s) THEN RmExpWo(s, Batch, 0, 0) ELSE <<s, 0, 0>>
             s1 == [r1[1] EXCEPT !.ec = r1[1].ec - r1[2], !.ws = SatSub(r1[1].ws, r1[3])]
             r2 == IF s.cfg.tti # None THEN RmExpAo(s1, Batch, 0, 0) ELSE <<s1, 0, 0>>
         IN [r2[1] EXCEPT !.ec = r2[1].ec - r2[2], !.ws = SatSub(r2[1].ws, r2[3])]

\* evict_lru_entries
RECURSIVE RmLru(_, _, _, _, _)
RmLru(s, n, need, c, w) ==
    IF n = 0 \/ w >= need \/ s.ao = <<>> THEN <<s, c, w>>
    ELSE LET k == Head(s.ao)
         IN RmLru(Unlink(s, k), n - 1, need, c + 1, w + s.map[k].w)

EvictLru(s) ==
    LET need == IF s.cfg.cap = None THEN 0 ELSE SatSub(s.ws, s.cfg.cap)
        r == RmLru(s, Batch, need, 0, 0)
    IN [r[1] EXCEPT !.ec = r[1].ec - r[2], !.ws = SatSub(r[1].ws, r[3])]

\* evict_expired_if_needed + evict_lru_entries: start of get/contains/insert/invalidate
Prelude(s) == EvictLru(EvictExpired([s EXCEPT !.aged = FALSE]))

-----------------------------------------------------------------------------
(* insert                                                                    *)

Weigh(s, w) == IF s.cfg.weigher THEN w ELSE 1

PushNew(s, k) ==   \* push_back_ao / push_back_wo for the candidate
    [s EXCEPT !.ao = Append(s.ao, k),
              !.wo = IF HasTtl(s) THEN Append(s.wo, k) ELSE s.wo,
              !.map[k].la = Ts(s),
              !.map[k].lm = IF HasTtl(s) THEN Ts(s) ELSE None]

\* admit(): walk from the LRU end; returns <<number of victims, weight, freq>>
RECURSIVE AdmitWalk(_, _, _, _, _, _)
AdmitWalk(s, cw, cf, i, vw, vf) ==
    IF vw >= cw \/ cf < vf \/ i >= Len(s.ao) THEN <<i, vw, vf>>
    ELSE LET k == s.ao[i + 1]
         IN AdmitWalk(s, cw, cf, i + 1, vw + s.map[k].w, vf + Freq(s, k))

RECURSIVE UnlinkAll(_, _)
UnlinkAll(s, q) == IF q = <<>> THEN s ELSE UnlinkAll(Unlink(s, Head(q)), Tail(q))

HandleInsert(s, k, w) ==   \* the map already holds the new entry (without nodes)
    IF s.cfg.cap = None \/ s.ws + w <= s.cfg.cap
    THEN MaybeEnableSketch([PushNew(s, k) EXCEPT !.ec = s.ec + 1, !.ws = s.ws + w])
    ELSE IF w > s.cfg.cap
    THEN [s EXCEPT !.map[k] = NoEntry]                       \* oversize: rejected
    ELSE LET r == AdmitWalk(s, w, Freq(s, k), 0, 0, 0)
             victims == Prefix(s.ao, r[1])
         IN IF r[2] >= w /\ Freq(s, k) > r[3]
            THEN LET s1 == UnlinkAll(s, victims)
                     s2 == PushNew(s1, k)
                 IN MaybeEnableSketch([s2 EXCEPT !.ec = s.ec - Len(victims) + 1,
                                                 !.ws = SatSub(s.ws, r[2]) + w])
            ELSE [s EXCEPT !.map[k] = NoEntry]               \* rejected

HandleUpdate(s, k, v, w) ==
    LET old == s.map[k]
        e == [p |-> TRUE, v |-> v, w |-> w,
              la |-> IF HasExpiry(s) THEN s.now ELSE old.la,
              lm |-> IF HasExpiry(s) /\ HasTtl(s) THEN s.now ELSE old.lm]
    IN [s EXCEPT !.map[k] = e, !.ao = MoveToBack(s.ao, k),
                 !.wo = IF HasTtl(s) THEN MoveToBack(s.wo, k) ELSE s.wo,
                 !.ws = SatSub(s.ws, old.w) + w]

Insert(s0, k, v, w0) ==
    LET s == Prelude(s0)
        w == Weigh(s, w0)
    IN IF s.map[k].p
       \* F13 repaired: an update that grew the entry restores the bound before insert returns
       THEN (IF "F13" \in Dev THEN HandleUpdate(s, k, v, w) ELSE EvictLru(HandleUpdate(s, k, v, w)))
       ELSE HandleInsert([s EXCEPT !.map[k] = [p |-> TRUE, v |-> v, w |-> w,
                                                la |-> None, lm |-> None]], k, w)

-----------------------------------------------------------------------------
(* lookups                                                                   *)

Visible(s, k) == s.map[k].p /\ ~Expired(s, s.map[k])

\* get: returns <<state, result>>
Get(s0, k) ==
    LET s1 == SketchIncrement(Prelude(s0), k)
    IN IF Visible(s1, k)
       THEN <<[s1 EXCEPT !.map[k].la = IF HasExpiry(s1) THEN s1.now ELSE @,
                         !.ao = MoveToBack(s1.ao, k)], s1.map[k].v>>
       ELSE <<s1, None>>

Contains(s0, k) == LET s == Prelude(s0) IN <<s, Visible(s, k)>>

\* iter: no prelude; yields the entries that are not expired
IterItems(s) == LET ks == SortedSeq({k \in Keys : Visible(s, k)})
                IN [i \in DOMAIN ks |-> [k |-> ks[i], v |-> s.map[ks[i]].v]]

-----------------------------------------------------------------------------
(* invalidation                                                              *)

Invalidate(s0, k) ==
    LET s == Prelude(s0)
    IN IF ~s.map[k].p THEN s
       ELSE LET s1 == Unlink(s, k)
            IN [s1 EXCEPT !.ws = SatSub(s.ws, s.map[k].w),
                          !.ec = IF "F1" \in Dev THEN s.ec ELSE s.ec - 1]

InvalidateAll(s) ==
    [s EXCEPT !.aged = FALSE, !.map = [k \in Keys |-> NoEntry], !.ao = <<>>, !.wo = <<>>, !.ws = 0,
              !.ec = IF "F2" \in Dev THEN s.ec ELSE 0]

\* predicate: key in pk, or (vm > 0 and value % vm = vr)
Matches(e, k, pk, vm, vr) == k \in pk \/ (vm > 0 /\ e.v % vm = vr)

InvalidateIf(s, pk, vm, vr) ==
    LET T == {k \in Keys : s.map[k].p /\ Matches(s.map[k], k, pk, vm, vr)}
        wsum == SetSum(T, [k \in Keys |-> s.map[k].w])
    IN [s EXCEPT !.aged = FALSE,
                 !.map = [k \in Keys |-> IF k \in T THEN NoEntry ELSE s.map[k]],
                 !.ao = WithoutSet(s.ao, T), !.wo = WithoutSet(s.wo, T),
                 !.ws = IF "F3" \in Dev THEN s.ws ELSE SatSub(s.ws, wsum),
                 !.ec = IF "F3" \in Dev THEN s.ec ELSE s.ec - Cardinality(T)]

Advance(s, d) == [s EXCEPT !.now = s.now + d, !.aged = FALSE]

-----------------------------------------------------------------------------
(* The observable projection of a state: what the snapshot hook reports.     *)

ResOf(s) == LET ks == SortedSeq({k \in Keys : s.map[k].p})
            IN [i \in DOMAIN ks |->
                  [k |-> ks[i], v |-> s.map[ks[i]].v, w |-> s.map[ks[i]].w, tw |-> s.map[ks[i]].w,
                   la |-> s.map[ks[i]].la, lm |-> s.map[ks[i]].lm]]

USnap(s) == [res |-> ResOf(s), ao |-> s.ao, wo |-> s.wo, ec |-> s.ec, ws |-> s.ws,
             fq |-> [k \in Keys |-> Freq(s, k)], sk |-> [on |-> s.son, aged |-> s.aged],
             va |-> None, rlen |-> 0, wlen |-> 0, it |-> IterItems(s),
             lk |-> Cardinality({k \in Keys : s.map[k].p}),
             lv |-> Cardinality({k \in Keys : s.map[k].p}), dd |-> 0]

-----------------------------------------------------------------------------
(* One API call as a function of the state: o is [op, k, v, w, p, d]         *)

\* One call: the new state and the event without its snapshot
UDo(st, o) ==
    CASE o.op = "Insert" ->
           [s |-> Insert(st, o.k, o.v, o.w),
            ev |-> [ev |-> "Insert", k |-> o.k, v |-> o.v, w |-> Weigh(st, o.w), now |-> st.now]]
      [] o.op = "Get" ->
           LET r == Get(st, o.k) IN
           [s |-> r[1], ev |-> [ev |-> "Get", k |-> o.k, r |-> r[2], now |-> st.now]]
      [] o.op = "Contains" ->
           LET r == Contains(st, o.k) IN
           [s |-> r[1], ev |-> [ev |-> "Contains", k |-> o.k, r |-> r[2], now |-> st.now]]
      [] o.op = "Invalidate" ->
           [s |-> Invalidate(st, o.k), ev |-> [ev |-> "Invalidate", k |-> o.k, now |-> st.now]]
      [] o.op = "InvalidateAll" ->
           [s |-> InvalidateAll(st), ev |-> [ev |-> "InvalidateAll", now |-> st.now]]
      [] o.op = "InvalidateIf" ->
           [s |-> InvalidateIf(st, Range(o.p[1]), o.p[2], o.p[3]),
            ev |-> [ev |-> "InvalidateIf", pk |-> o.p[1], vm |-> o.p[2], vr |-> o.p[3], now |-> st.now]]
      [] o.op = "Iter" ->
           [s |-> [st EXCEPT !.aged = FALSE],
            ev |-> [ev |-> "Iter", items |-> IterItems(st), now |-> st.now]]
      [] o.op = "Advance" ->
           [s |-> Advance(st, o.d), ev |-> [ev |-> "Advance", d |-> o.d, now |-> st.now]]

UEventOf(r) == r.ev @@ [snap |-> USnap(r.s)]

=============================================================================
