----------------------------- MODULE TraceSketch -----------------------------
(* Trace validation for the popularity estimator: events recorded through    *)
(* the sketch facade are judged by the C14 monitor and compared with         *)
(* Sketch.tla run beside the code.                                           *)
EXTENDS Sketch, Json, IOUtils

Rec == ndJsonDeserialize(IOEnv.TRACE)

VARIABLES l, s, ps, failed, li, bid, stats
vars == <<l, s, ps, failed, li, bid, stats>>

NoPos == <<>>
Init == /\ l = 1 /\ s = SkInit(0, NoPos) /\ ps = PInit14(NoPos) /\ failed = FALSE /\ li = "off"
        /\ bid = -1 /\ stats = [events |-> 0, behaviours |-> 0, conform |-> 0, drift |-> 0, nt |-> 0, viol |-> 0]

Next ==
    /\ l <= Len(Rec) /\ l' = l + 1
    /\ LET e == Rec[l] IN
       IF e.ev = "SkConfig"
       THEN LET s0 == SkInit(e.cap, e.pos)
                same == s0.tlen = e.tlen /\ s0.sample = e.sample
            IN /\ s' = s0 /\ ps' = PInit14(e.pos) /\ failed' = FALSE /\ bid' = e.id
               /\ li' = IF same THEN "on" ELSE "off"
               /\ (~same => PrintT(<<"DRIFT", e.id, l>>))
               /\ stats' = [stats EXCEPT !.behaviours = @ + 1, !.drift = IF same THEN @ ELSE @ + 1]
               /\ (l = Len(Rec) => PrintT(<<"STATS", ToJson(stats')>>))
       ELSE IF e.ev = "SkInc"
       THEN LET good == failed \/ Allowed_Sk14(ps, e)
                s2 == SkIncrement(s, e.g)
                agrees == li = "on" /\ SkEst(s2) = e.est /\ s2.size = e.size /\ s2.aged = e.aged /\ ~s2.crash
                drifted == li = "on" /\ ~agrees
                st1 == [stats EXCEPT !.events = @ + 1, !.conform = IF agrees THEN @ + 1 ELSE @,
                                     !.drift = IF drifted THEN @ + 1 ELSE @,
                                     !.nt = IF e.aged \/ ps.est[e.g] > 0 THEN @ + 1 ELSE @,
                                     !.viol = IF good THEN @ ELSE @ + 1]
            IN /\ (~good => PrintT(<<"VIOL", "C14", bid, l>>))
               /\ (drifted => PrintT(<<"DRIFT", bid, l>>))
               /\ failed' = (failed \/ ~good)
               /\ ps' = PUpdate14(ps, e)
               /\ s' = IF agrees THEN s2 ELSE s
               /\ li' = IF drifted THEN "off" ELSE li
               /\ bid' = bid /\ stats' = st1
               /\ (l = Len(Rec) => PrintT(<<"STATS", ToJson(st1)>>))
       ELSE \* Panic / Crash: never allowed (C08, C14)
            /\ PrintT(<<"VIOL", "C08", bid, l>>) /\ PrintT(<<"VIOL", "C14", bid, l>>)
            /\ UNCHANGED <<s, ps, li, bid>> /\ failed' = TRUE
            /\ stats' = [stats EXCEPT !.events = @ + 1, !.viol = @ + 1]
            /\ (l = Len(Rec) => PrintT(<<"STATS", ToJson(stats')>>))

Spec == Init /\ [][Next]_vars
Consumed == TLCGet("stats").diameter = Len(Rec) + 1
=============================================================================
