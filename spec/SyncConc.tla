------------------------------ MODULE SyncConc ------------------------------
(* The concurrent cache with several client threads: the operators of        *)
(* SyncCache.tla interleaved at the switch points that the code marks with   *)
(* verif::point(tag).  A thread is always parked at a point; a step runs it  *)
(* from there to its next point (everything in between touches only state    *)
(* private to the thread or protected by the lock it holds).                 *)
(*                                                                           *)
(*   ins.map  get.map  inv.map  invall  ck     the foreground map access     *)
(*   hk.w  hk.r      channel length, should_apply, CAS on is_sync_running    *)
(*   send.w send.r   try_send of the record (a full write channel: retry)    *)
(*   sync.lock       taking the deques mutex (Inner::sync), enabled when free*)
(*   m.read m.write  one queued record;  m.expire  m.evict  the two scans    *)
(*   m.w2            handle_upsert between its residency check (one access   *)
(*                   to the map, guard released) and everything that follows *)
(*   m.w3            handle_upsert about to remove the candidate's own map   *)
(*                   entry (dead / oversize / rejected): remove_if           *)
(*   m.end           publish the counters, release mutex (and the flag)      *)
(*   adv             the harness advances the mock clock                     *)
(*                                                                           *)
(* Also here: the monitor of property C02 over invoke / return events.       *)
EXTENDS SyncCache

CONSTANT Threads       \* 1..Threads

TIds == 1..Threads

\* thread-local state
\* ts: the clock reading the operation took at its map access (housekeeping is judged against it)
NoRec == [t |-> "none"]
ThInit(prog) == [prog |-> prog, ip |-> 1, pc |-> "", rec |-> [t |-> "none"], after |-> "", res |-> None, ts |-> 0]

FirstTag(o) ==
    CASE o.op = "Insert" -> "ins.map"
      [] o.op = "Get" -> "get.map"
      [] o.op = "Invalidate" -> "inv.map"
      [] o.op = "InvalidateAll" -> "invall"
      [] o.op = "Contains" -> "ck"
      [] o.op = "Sync" -> "sync.lock"
      [] o.op = "Advance" -> "adv"

PcAt(th) == IF th.ip > Len(th.prog) THEN "done" ELSE IF th.pc = "" THEN FirstTag(th.prog[th.ip]) ELSE th.pc

\* the whole system
GInit(cfg, progs) ==
    [s |-> SInit(cfg), th |-> [t \in TIds |-> ThInit(progs[t])], mtx |-> 0, hkrun |-> 0,
     m |-> [c |-> <<0, 0>>, calls |-> 0, rleft |-> 0, wleft |-> 0, hk |-> FALSE, pend |-> NoRec]]

Done(g, t) == PcAt(g.th[t]) = "done"
AllDone(g) == \A t \in TIds : Done(g, t)
Enabled(g, t) == ~Done(g, t) /\ (PcAt(g.th[t]) = "sync.lock" => g.mtx = 0) /\ g.s.crash = ""

\* the current operation of thread t has returned (with result r)
Finish(g, t, r) == [g EXCEPT !.th[t].ip = @ + 1, !.th[t].pc = "", !.th[t].res = r,
                             !.th[t].rec = [t |-> "none"], !.th[t].after = "", !.th[t].ts = 0]
Goto(g, t, tag) == [g EXCEPT !.th[t].pc = tag]

-----------------------------------------------------------------------------
(* Inside Inner::sync: from one switch point to the next                     *)

EvictTop(g, t) ==
    LET need == IF g.s.cfg.cap = None THEN 0 ELSE SatSub(g.m.c[2], g.s.cfg.cap)
    IN IF need > 0 THEN Goto(g, t, "m.evict") ELSE Goto(g, t, "m.end")

AfterLoop(g, t) ==
    IF HasExpiry(g.s) \/ g.s.va # None THEN Goto(g, t, "m.expire") ELSE EvictTop(g, t)

RECURSIVE LoopTop(_, _)
LoopEnd(g0, t) ==
    LET g == [g0 EXCEPT !.s = MaybeEnableSketch(g0.s, g0.m.c), !.m.calls = @ + 1]
    IN IF (Len(g.s.rch) >= Flush \/ Len(g.s.wch) >= Flush) /\ g.m.calls <= MaxRepeats
       THEN LoopTop(g, t) ELSE AfterLoop(g, t)

WritesTop(g, t) ==
    IF Len(g.s.wch) > 0 THEN Goto([g EXCEPT !.m.wleft = Len(g.s.wch)], t, "m.write") ELSE LoopEnd(g, t)

LoopTop(g, t) ==
    IF Len(g.s.rch) > 0 THEN Goto([g EXCEPT !.m.rleft = Len(g.s.rch)], t, "m.read") ELSE WritesTop(g, t)

-----------------------------------------------------------------------------
(* One step of thread t                                                      *)

ShouldApply(g, len, ts) == len >= Flush \/ g.s.hk >= ts

Step(g, t) ==
    LET th == g.th[t]
        pc == PcAt(th)
        o == th.prog[th.ip]
        s == g.s
    IN
    CASE pc = "ins.map" ->
           LET r == InsMap(s, o.k, o.v, o.w)
           IN Goto([g EXCEPT !.s = [r[1] EXCEPT !.infl = @ \cup {r[2]}], !.th[t].rec = r[2], !.th[t].ts = s.now], t, "hk.w")
      [] pc = "inv.map" ->
           IF s.map[o.k].p
           THEN Goto([g EXCEPT !.s = [MapRemove(s, o.k) EXCEPT !.infl = @ \cup {InvRec(s, o.k)}],
                               !.th[t].rec = InvRec(s, o.k), !.th[t].ts = s.now], t, "hk.w")
           ELSE Finish(g, t, None)
      [] pc = "get.map" ->
           LET r == GetMap(s, o.k)
               hrec == [r[1] EXCEPT !.k = o.k] @@ [t |-> "H", by |-> t]
           IN Goto([g EXCEPT !.s.infl = @ \cup {hrec}, !.th[t].rec = hrec, !.th[t].res = r[2], !.th[t].ts = s.now], t, "hk.r")
      [] pc = "invall" -> Finish([g EXCEPT !.s.va = s.now], t, None)
      [] pc = "ck" -> Finish(g, t, IF Visible(s, o.k) THEN 1 ELSE 0)
      [] pc = "adv" -> Finish([g EXCEPT !.s.now = s.now + o.d], t, None)
      [] pc \in {"hk.w", "hk.r"} ->
           LET len == IF pc = "hk.w" THEN Len(s.wch) ELSE Len(s.rch)
               nxt == IF pc = "hk.w" THEN "send.w" ELSE "send.r"
           IN IF ShouldApply(g, len, th.ts) /\ g.hkrun = 0
              THEN Goto([g EXCEPT !.hkrun = t, !.s.hk = s.now, !.th[t].after = nxt], t, "sync.lock")
              ELSE Goto(g, t, nxt)
      [] pc = "send.w" ->
           IF Len(s.wch) < WLog
           THEN Finish([g EXCEPT !.s.wch = Append(s.wch, th.rec), !.s.infl = @ \ {th.rec}], t, None)
           ELSE Goto(g, t, "hk.w")                        \* full: sleep, then try again
      [] pc = "send.r" ->
           Finish(IF Len(s.rch) < RLog
                  THEN [g EXCEPT !.s.rch = Append(s.rch, [hit |-> th.rec.hit, k |-> th.rec.k, i |-> th.rec.i,
                                                          ts |-> th.rec.ts]),
                                 !.s.infl = @ \ {th.rec}]
                  ELSE [g EXCEPT !.s.infl = @ \ {th.rec}], t, th.res)
      [] pc = "sync.lock" ->
           LoopTop([g EXCEPT !.mtx = t, !.m = [c |-> <<s.ec, s.ws>>, calls |-> 0, rleft |-> 0, wleft |-> 0,
                                               hk |-> (g.hkrun = t), pend |-> NoRec]], t)
      [] pc = "m.read" ->
           LET g1 == [g EXCEPT !.s = ApplyRead([s EXCEPT !.rch = Tail(s.rch)], Head(s.rch)), !.m.rleft = @ - 1]
           IN IF g1.m.rleft = 0 \/ g1.s.rch = <<>> THEN WritesTop(g1, t) ELSE g1
      [] pc = "m.write" ->
           LET rec == Head(s.wch)
               sP == [s EXCEPT !.wch = Tail(s.wch)]
           IN IF rec.t = "U" /\ ~sP.info[rec.i].adm /\ sP.map[rec.k].p /\ sP.map[rec.k].i = rec.i
              THEN \* an entry not admitted yet that is still in the map: the residency check is a
                   \* step of its own, the record stays with the maintenance thread meanwhile
                   Goto([g EXCEPT !.s = [sP EXCEPT !.info[rec.i].dirty = FALSE, !.infl = @ \cup {rec}],
                                  !.m.pend = rec], t, "m.w2")
              ELSE LET r == ApplyWrite(sP, g.m.c, rec)
                       g1 == [g EXCEPT !.s = r[1], !.m.c = r[2], !.m.wleft = @ - 1]
                   IN IF g1.m.wleft = 0 \/ g1.s.wch = <<>> THEN LoopEnd(g1, t) ELSE g1
      [] pc = "m.w2" ->
           LET d == UpsertDecide([s EXCEPT !.infl = @ \ {g.m.pend}], g.m.c, g.m.pend)
               g1 == [g EXCEPT !.s = d.s, !.m.c = d.c, !.m.wleft = @ - 1, !.m.pend = NoRec]
           IN IF d.kind = "done"
              THEN IF g1.m.wleft = 0 \/ g1.s.wch = <<>> THEN LoopEnd(g1, t) ELSE Goto(g1, t, "m.write")
              ELSE \* the candidate's own map entry is to be removed: one more access to the map
                   Goto([g EXCEPT !.s = [d.s EXCEPT !.infl = @ \cup {g.m.pend}], !.m.c = d.c,
                                  !.m.pend = g.m.pend @@ [kind |-> d.kind, skipped |-> d.skipped]], t, "m.w3")
      [] pc = "m.w3" ->
           LET rec == [f \in DOMAIN g.m.pend \ {"kind", "skipped"} |-> g.m.pend[f]]
               r == UpsertFinish([s EXCEPT !.infl = @ \ {rec}], g.m.c, rec, g.m.pend)
               g1 == [g EXCEPT !.s = r[1], !.m.c = r[2], !.m.wleft = @ - 1, !.m.pend = NoRec]
           IN IF g1.m.wleft = 0 \/ g1.s.wch = <<>> THEN LoopEnd(g1, t) ELSE Goto(g1, t, "m.write")
      [] pc = "m.expire" ->
           LET r == EvictExpired(s, g.m.c) IN EvictTop([g EXCEPT !.s = r[1], !.m.c = r[2]], t)
      [] pc = "m.evict" ->
           LET need == SatSub(g.m.c[2], s.cfg.cap)
               r == RmLru(s, g.m.c, SBatch, need, 0)
           IN Goto([g EXCEPT !.s = r[1], !.m.c = r[2]], t, "m.end")
      [] pc = "m.end" ->
           LET g1 == [g EXCEPT !.s.ec = g.m.c[1], !.s.ws = g.m.c[2], !.mtx = 0,
                               !.hkrun = IF g.m.hk THEN 0 ELSE @]
           IN IF th.after = "" THEN Finish(g1, t, None)          \* an explicit sync()
              ELSE Goto([g1 EXCEPT !.th[t].after = ""], t, th.after)

\* garbage and per-call logs are not state
GCanon(g) == [g EXCEPT !.s = Canon(g.s)]

-----------------------------------------------------------------------------
(* The monitor of C02.  Events: Inv [t, op, k, v, id] and Ret [t, id, r] in  *)
(* the order of the steps; id names the operation (t, index).  A write is an *)
(* insert or an invalidate of one key.  For every write and every get the    *)
(* monitor keeps the set of same-key writes that had returned when it was    *)
(* invoked; that is all the real-time order the property needs.              *)

P02Init == [wr |-> {}, gets |-> {}, seen |-> {}, hit |-> [k \in Keys |-> None]]
\* wr: [id, k, v (None for invalidate), done, obs, pred, ia, tlo, thi]; gets: [id, k, pred] in flight;
\* obs: a get has returned the value of this insert, so the insert has taken effect although it may
\* not have returned yet: from then on it precedes every operation invoked later, exactly as if it
\* had returned at that moment (its clock reading is at most the reading at that get's return).
\* seen: <<reader, writer, key, index>> the latest index of writer's values reader has observed.
\* invalidate_all is a write to every key (ia); tlo / thi are the clock readings at the
\* invocation and at the return of a write: an invalidate_all supersedes an insert only if the
\* insert's clock reading is certainly strictly earlier (thi of the insert < tlo of the call).

IsWrite(e) == e.op \in {"Insert", "Invalidate", "InvalidateAll"}
ClockOf(e) == IF "now" \in DOMAIN e THEN e.now ELSE 0
OnKey(x, k) == x.k = k \/ x.ia
WriterOf(v) == v \div 100
IndexOf(v) == v % 100

P02Update(ps, e) ==
    CASE e.ev = "Inv" /\ IsWrite(e) ->
           [ps EXCEPT !.wr = @ \cup {[id |-> e.id, k |-> e.k, v |-> IF e.op = "Insert" THEN e.v ELSE None,
                                      done |-> FALSE, obs |-> FALSE, ia |-> (e.op = "InvalidateAll"),
                                      tlo |-> ClockOf(e), thi |-> ClockOf(e),
                                      pred |-> {w.id : w \in {x \in ps.wr :
                                                  (e.op = "InvalidateAll" \/ OnKey(x, e.k)) /\ (x.done \/ x.obs)}}]}]
      [] e.ev = "Inv" /\ e.op = "Get" ->
           [ps EXCEPT !.gets = @ \cup {[id |-> e.id, k |-> e.k, t0 |-> ClockOf(e),
                                        pred |-> {w.id : w \in {x \in ps.wr : OnKey(x, e.k) /\ (x.done \/ x.obs)}}]}]
      [] e.ev = "Ret" /\ \E w \in ps.wr : w.id = e.id ->
           [ps EXCEPT !.wr = {IF w.id = e.id
                              THEN [w EXCEPT !.done = TRUE, !.thi = IF w.obs THEN @ ELSE Max(@, ClockOf(e))] ELSE w
                              : w \in ps.wr}]
      [] e.ev = "Ret" /\ \E q \in ps.gets : q.id = e.id ->
           LET q == CHOOSE x \in ps.gets : x.id = e.id
               others == {x \in ps.seen : ~(x[1] = e.t /\ x[2] = WriterOf(e.r) /\ x[3] = q.k)}
           IN [ps EXCEPT !.gets = @ \ {q},
                         !.hit[q.k] = IF e.r = None THEN @ ELSE Max(@, ClockOf(e)),
                         !.wr = IF e.r = None THEN @
                                ELSE {IF w.k = q.k /\ w.v = e.r /\ ~w.done /\ ~w.obs
                                      THEN [w EXCEPT !.obs = TRUE, !.thi = Max(@, ClockOf(e))] ELSE w : w \in ps.wr},
                         !.seen = IF e.r = None THEN @
                                  ELSE others \cup {<<e.t, WriterOf(e.r), q.k, IndexOf(e.r)>>}]
      [] OTHER -> ps

\* the insert that wrote value v for key k, if any
WroteIt(ps, k, v) == {w \in ps.wr : w.k = k /\ w.v = v}

\* v, written by w, was superseded before an operation with predecessor set pred began:
\* some write of the key that returned before that operation began was itself invoked after w returned
Superseded(ps, w, pred) ==
    \E x \in ps.wr : x.id \in pred /\ x.id # w.id /\ w.id \in x.pred /\ (x.ia => w.thi < x.tlo)

Allowed_C02(ps, e) ==
    CASE e.ev = "Ret" /\ (\E q \in ps.gets : q.id = e.id) /\ e.r # None ->
           LET q == CHOOSE x \in ps.gets : x.id = e.id
           IN /\ \E w \in WroteIt(ps, q.k, e.r) : ~Superseded(ps, w, q.pred)          \* (i)
              /\ \A x \in ps.seen : (x[1] = e.t /\ x[2] = WriterOf(e.r) /\ x[3] = q.k)  \* (ii)
                                      => x[4] <= IndexOf(e.r)
      [] e.ev = "Final" ->                                                              \* (iii)
           \A i \in DOMAIN e.items :
              \E w \in WroteIt(ps, e.items[i].k, e.items[i].v) :
                 ~\E x \in ps.wr : OnKey(x, w.k) /\ x.id # w.id /\ w.id \in x.pred /\ (x.ia => w.thi < x.tlo)
      [] OTHER -> TRUE

-----------------------------------------------------------------------------
(* The monitors of C05 and C06 under interleavings, on the same events (every *)
(* Inv / Ret carries the reading of the expiration clock).  They are upper    *)
(* bounds, as in the sequential case: a get must not return a value whose     *)
(* write, or whose last access, is CERTAINLY too old.  thi of an insert is    *)
(* the latest reading at which it can have written (its return, or the return *)
(* of the first get that saw its value); hit[k] is the latest reading at      *)
(* which a completed get of k can have touched the entry; t0 is the reading   *)
(* at which the judged get was invoked, the earliest at which it can have     *)
(* looked.  Operations still in flight can have happened at any reading up to *)
(* now, so they make the monitor silent.                                      *)

Allowed_C05c(cfg, ps, e) ==
    IF e.ev = "Ret" /\ (\E q \in ps.gets : q.id = e.id) /\ e.r # None /\ cfg.ttl # None
    THEN LET q == CHOOSE x \in ps.gets : x.id = e.id
         IN \A w \in WroteIt(ps, q.k, e.r) : (w.done \/ w.obs) => q.t0 < w.thi + cfg.ttl
    ELSE TRUE

Allowed_C06c(cfg, ps, e) ==
    IF e.ev = "Ret" /\ (\E q \in ps.gets : q.id = e.id) /\ e.r # None /\ cfg.tti # None
    THEN LET q == CHOOSE x \in ps.gets : x.id = e.id
             ins == {w \in ps.wr : w.k = q.k /\ w.v # None}
             certainlyIdle ==
                 /\ \A w \in ins : (w.done \/ w.obs) /\ q.t0 >= w.thi + cfg.tti
                 /\ ps.hit[q.k] = None \/ q.t0 >= ps.hit[q.k] + cfg.tti
                 /\ ~\E x \in ps.gets : x.id # q.id /\ x.k = q.k
         IN ins = {} \/ ~certainlyIdle
    ELSE TRUE

\* C03 / C16 under interleavings: what the final iteration (after the threads have stopped and
\* maintenance has run to quiescence) must yield.  Where nothing can expire and every key fits
\* (unit weights, at least as much capacity as keys: no eviction is ever legitimate), an insert
\* that is unambiguously the last write of its key (every other write of the key, invalidate_all
\* included, had returned before it was invoked) must still be there with its value.
Allowed_C03c(cfg, ps, e) ==
    (e.ev = "Final" /\ cfg.ttl = None /\ cfg.tti = None /\ (cfg.cap = None \/ (~cfg.weigher /\ cfg.nkeys <= cfg.cap))) =>
        \A w \in ps.wr :
            (w.v # None /\ w.done /\ \A x \in ps.wr : (x.id # w.id /\ OnKey(x, w.k)) => x.id \in w.pred)
            => \E i \in DOMAIN e.items : e.items[i].k = w.k /\ e.items[i].v = w.v

NT_C05c(cfg, ps, e) == e.ev = "Ret" /\ (\E q \in ps.gets : q.id = e.id) /\ cfg.ttl # None
NT_C06c(cfg, ps, e) == e.ev = "Ret" /\ (\E q \in ps.gets : q.id = e.id) /\ cfg.tti # None

=============================================================================
