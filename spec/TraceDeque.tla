----------------------------- MODULE TraceDeque -----------------------------
(* Trace validation for the intrusive list: operations issued through the    *)
(* facade, with a structural walk of the real heap after each one.  TLC      *)
(* evaluates the well-formedness invariant on the walked structure (C08),    *)
(* the ownership count (C11), and compares with Deque.tla run beside it.     *)
EXTENDS Deque, Json, IOUtils

M == INSTANCE Monitors
Rec == ndJsonDeserialize(IOEnv.TRACE)

VARIABLES l, s, li, bid, failed, stats
vars == <<l, s, li, bid, failed, stats>>

Init == l = 1 /\ s = DInit /\ li = "off" /\ bid = -1 /\ failed = FALSE
        /\ stats = [events |-> 0, behaviours |-> 0, conform |-> 0, drift |-> 0, nt |-> 0, viol |-> 0]

OpOf(e) == CASE e.op = "PushBack" -> [op |-> "PushBack", e |-> e.e]
             [] e.op \in {"MoveToBack", "UnlinkAndDrop", "Contains"} -> [op |-> e.op, n |-> e.n]
             [] OTHER -> [op |-> e.op]

Next ==
    /\ l <= Len(Rec) /\ l' = l + 1
    /\ LET e == Rec[l] IN
       IF e.ev = "DqConfig"
       THEN /\ s' = DInit /\ li' = "on" /\ bid' = e.id /\ failed' = FALSE
            /\ stats' = [stats EXCEPT !.behaviours = @ + 1]
            /\ (l = Len(Rec) => PrintT(<<"STATS", ToJson(stats')>>))
       ELSE IF e.ev = "Dq"
       THEN LET wf == M!WFDeque(e.dump) /\ e.lv = e.dump.len /\ e.dd = 0
                canStep == li = "on" /\ (e.op # "PushBack" \/ s.nalloc < MaxAlloc)
                r == DDo(s, OpOf(e))
                agrees == canStep /\ r.r = e.r /\ DDump(r.s) = [f \in {"head", "tail", "len", "cur", "nodes"} |-> e.dump[f]]
                          /\ ~r.s.crash
                drifted == li = "on" /\ ~agrees
                st1 == [stats EXCEPT !.events = @ + 1, !.conform = IF agrees THEN @ + 1 ELSE @,
                                     !.drift = IF drifted THEN @ + 1 ELSE @,
                                     !.nt = IF e.dump.len > 0 THEN @ + 1 ELSE @,
                                     !.viol = IF wf \/ failed THEN @ ELSE @ + 1]
            IN /\ ((~wf /\ ~failed) => (PrintT(<<"VIOL", "C08", bid, l>>) /\ PrintT(<<"VIOL", "C11", bid, l>>)))
               /\ (drifted => PrintT(<<"DRIFT", bid, l>>))
               /\ failed' = (failed \/ ~wf)
               /\ s' = IF agrees THEN r.s ELSE s
               /\ li' = IF drifted THEN "off" ELSE li
               /\ bid' = bid /\ stats' = st1
               /\ (l = Len(Rec) => PrintT(<<"STATS", ToJson(st1)>>))
       ELSE /\ PrintT(<<"VIOL", "C08", bid, l>>)
            /\ UNCHANGED <<s, li, bid>> /\ failed' = TRUE
            /\ stats' = [stats EXCEPT !.events = @ + 1, !.viol = @ + 1]
            /\ (l = Len(Rec) => PrintT(<<"STATS", ToJson(stats')>>))

Spec == Init /\ [][Next]_vars
Consumed == TLCGet("stats").diameter = Len(Rec) + 1
=============================================================================
