------------------------------ MODULE MC_Unsync ------------------------------
(* Layer I (UnsyncCache) composed with the property monitors: every history  *)
(* over a small universe, every configuration of a slice, every monitor      *)
(* evaluated on every event.  Also emits one behaviour per edge of the state *)
(* graph for replay on the real cache (mode R).                              *)
EXTENDS UnsyncCache, Json

CONSTANTS Slice,        \* name of the configuration slice (see CfgSlices)
          Vals,         \* values an insert may carry
          Weights,      \* weights the weigher may report
          MaxT,         \* clock horizon
          CheckProps,   \* monitors to evaluate
          Emit,         \* TRUE: print one behaviour per edge (use with VIEW)
          MaxDepth      \* bound on the length of emitted behaviours

M == INSTANCE Monitors

VARIABLES s, hs, bad, h

vars == <<s, hs, bad, h>>
View == <<s, hs, bad>>

Cf(cap, ttl, tti, wg, hc) ==
    [kind |-> "unsync", cap |-> cap, ttl |-> ttl, tti |-> tti, weigher |-> wg,
     hconst |-> hc, hasher |-> IF hc THEN "const" ELSE "id", nkeys |-> NKeys]

CfgSlices ==
    [cap_unit   |-> {Cf(c, None, None, FALSE, FALSE) : c \in {None, 0, 1, 2, 3}},
     cap2       |-> {Cf(2, None, None, FALSE, FALSE)},
     cap_weight |-> {Cf(c, None, None, TRUE, FALSE) : c \in {1, 2, 3}},
     cap_const  |-> {Cf(c, None, None, wg, TRUE) : c \in {1, 2}, wg \in {FALSE, TRUE}},
     expiry     |-> {Cf(None, ttl, tti, FALSE, FALSE) : ttl \in {None, 0, 2}, tti \in {None, 2}},
     ttl_tti    |-> {Cf(None, 2, 2, FALSE, FALSE)},
     ttl2       |-> {Cf(None, 2, None, FALSE, FALSE)},
     tti2       |-> {Cf(None, None, 2, FALSE, FALSE)},
     cap1_ttl   |-> {Cf(1, 2, None, FALSE, FALSE)},
     cap2_tti   |-> {Cf(2, None, 2, FALSE, FALSE)},
     cap2_ttl_tti_w |-> {Cf(2, 2, 2, TRUE, FALSE)},
     cap1_ttl0  |-> {Cf(1, 0, None, FALSE, FALSE)},
     cap_exp    |-> {Cf(c, ttl, tti, wg, FALSE) : c \in {1, 2}, ttl \in {None, 2}, tti \in {None, 2},
                                                 wg \in {FALSE, TRUE}},
     all_small  |-> {Cf(c, ttl, tti, wg, hc) : c \in {None, 1, 2}, ttl \in {None, 2}, tti \in {None, 2},
                                                wg \in {FALSE, TRUE}, hc \in {FALSE, TRUE}}]

Cfgs == CfgSlices[Slice]

PredFamily == {<<<<>>, 0, 0>>, <<<<1>>, 0, 0>>, <<<<1, 2>>, 0, 0>>, <<<<>>, 2, 0>>, <<<<>>, 2, 1>>}

Ops(st) ==
    [op : {"Insert"}, k : Keys, v : Vals, w : IF st.cfg.weigher THEN Weights ELSE {1}]
    \cup [op : {"Get", "Contains", "Invalidate"}, k : Keys]
    \cup [op : {"InvalidateAll", "Iter"}]
    \cup [op : {"InvalidateIf"}, p : PredFamily]
    \cup (IF HasExpiry(st) THEN [op : {"Advance"}, d : {d \in {1, 2} : st.now + d <= MaxT}] ELSE {})

\* the operation as the harness reads it
OpJson(o) ==
    CASE o.op = "Insert" -> [op |-> "Insert", k |-> o.k, v |-> o.v, w |-> o.w]
      [] o.op \in {"Get", "Contains", "Invalidate"} -> [op |-> o.op, k |-> o.k]
      [] o.op = "InvalidateIf" -> [op |-> "InvalidateIf", pk |-> o.p[1], vm |-> o.p[2], vr |-> o.p[3]]
      [] o.op = "Advance" -> [op |-> "Advance", d |-> o.d]
      [] OTHER -> [op |-> o.op]

CfgJson(c) == [kind |-> "unsync", cap |-> c.cap, ttl |-> c.ttl, tti |-> c.tti,
               weigher |-> c.weigher, hasher |-> c.hasher, nkeys |-> c.nkeys]

\* what the replay compares with the real cache: everything except the live-object counts,
\* which the model states for quiescent points only
Expected(e) == [e EXCEPT !.snap = [f \in DOMAIN e.snap \ {"lk", "lv"} |-> e.snap[f]]]

\* C15 on Layer I: contains_key and iter leave the state unchanged up to the work every
\* other call performs first anyway (purging what is expired, restoring the capacity bound)
\* and what iteration yields is the same before and after (the call removes nothing that was
\* observable: with F13 repaired the cache is never left above its capacity between calls)
Pure(o, st, st2) == o.op \in {"Contains", "Iter"} =>
                       (Prelude(st2) = Prelude(st) /\ IterItems(st2) = IterItems(st))

Init == /\ \E c \in Cfgs : s = UInit(c) /\ hs = M!HInit(c)
        /\ bad = {}
        /\ h = <<>>

Next == \E o \in Ops(s) :
          LET r == UDo(s, o)
              e == UEventOf(r)
              pre == USnap(s)
          IN /\ s' = r.s
             /\ bad' = {p \in CheckProps : ~M!AllowedBy(p, hs, pre, e)}
                       \cup (IF "C15" \in CheckProps /\ ~Pure(o, s, r.s) THEN {"C15"} ELSE {})
             /\ hs' = IF CheckProps \ {"C15"} = {} THEN hs ELSE M!HUpdate(CheckProps \ {"C15"}, hs, pre, e)
             /\ h' = IF Emit \/ MaxDepth > 0 THEN Append(h, OpJson(o)) ELSE h
             /\ (Emit => PrintT(<<"EDGE", ToJson([cfg |-> CfgJson(s.cfg), ops |-> h', last |-> Expected(e)])>>))

Spec == Init /\ [][Next]_vars

Ok == bad = {}
NoPanic == ~s.panic
Stop == bad = {}     \* CONSTRAINT: do not explore beyond a violation
Depth == Len(h) < MaxDepth   \* CONSTRAINT for emission runs (h is hidden by the VIEW)

=============================================================================
