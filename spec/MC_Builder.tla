----------------------------- MODULE MC_Builder -----------------------------
(* Complete enumeration of the configuration space of property C17.          *)
EXTENDS Builder, Json

CONSTANT Emit
VARIABLES c, stage, ps, ok
vars == <<c, stage, ps, ok>>

Cfgs == [kind : {"unsync", "sync"}, via : {"builder", "new"}, cap : {None, 0, 1, 2, 3, 4},
         ttl : {None, 0, 1, 2, 3, 4, 5}, tti : {None, 0, 1, 2, 3, 4, 5}, weigher : BOOLEAN,
         init : {None, 0, 1, 2}]
\* Cache::new(n) takes a capacity and nothing else
Valid(x) == x.via = "new" => (x.cap # None /\ x.ttl = None /\ x.tti = None /\ ~x.weigher /\ x.init = None)

Init == c \in {x \in Cfgs : Valid(x)} /\ stage = 0 /\ ps = PInit17 /\ ok = TRUE

BuildEvent(x) == [ev |-> "Build", kind |-> x.kind, via |-> x.via, cap |-> x.cap, ttl |-> x.ttl, tti |-> x.tti,
                  weigher |-> x.weigher, init |-> x.init,
                  panicked |-> BuildOf(x).panicked, policy |-> BuildOf(x).policy]
FollowEvent(x) == [ev |-> "Follow", obs |-> FollowOf(x)]

Next ==
    \/ /\ stage = 0
       /\ LET e == BuildEvent(c) IN
          /\ ok' = Allowed_C17(ps, e) /\ ps' = PUpdate17(ps, e)
          /\ stage' = IF e.panicked THEN 2 ELSE 1
          /\ (Emit => PrintT(<<"EDGE", ToJson([cfg |-> c, build |-> e,
                                               follow |-> IF e.panicked THEN [none |-> TRUE] ELSE FollowEvent(c)])>>))
       /\ UNCHANGED c
    \/ /\ stage = 1
       /\ LET e == FollowEvent(c) IN ok' = Allowed_C17(ps, e) /\ ps' = PUpdate17(ps, e)
       /\ stage' = 2 /\ UNCHANGED c

Spec == Init /\ [][Next]_vars
Ok == ok
=============================================================================
