----------------------------- MODULE TraceConc -----------------------------
(* Trace validation for multi-threaded runs of the concurrent cache (modes S *)
(* and F).  Events, in the order of one atomic counter: Inv / Ret of every   *)
(* operation, then, after the threads have been joined and maintenance has   *)
(* run to quiescence, a Sync event with the usual snapshot, Final (what      *)
(* iteration yields), Refill (the C03 epilogue) and End (live objects after  *)
(* the last handle is dropped).  Timeout marks an operation that did not     *)
(* return.                                                                   *)
EXTENDS SyncConc, Json, IOUtils

CONSTANT CheckProps

M == INSTANCE Monitors
Rec == ndJsonDeserialize(IOEnv.TRACE)

VARIABLES l, ps, open, cfg, failed, bid, stats, kw
vars == <<l, ps, open, cfg, failed, bid, stats, kw>>

DummyCfg == [kind |-> "sync", cap |-> None, ttl |-> None, tti |-> None, weigher |-> FALSE,
             hconst |-> FALSE, hasher |-> "id", nkeys |-> NKeys]
\* kw: C16 beside writers: for every key the (invoke, return) stamps of its writes, in order
Init == l = 1 /\ ps = P02Init /\ open = {} /\ cfg = DummyCfg /\ failed = {} /\ bid = -1 /\ kw = <<>>
        /\ stats = [events |-> 0, behaviours |-> 0, nt |-> [p \in CheckProps |-> 0], viol |-> [p \in CheckProps |-> 0]]

CfgOf(e) == [kind |-> e.kind, cap |-> e.cap, ttl |-> e.ttl, tti |-> e.tti, weigher |-> e.weigher,
             hconst |-> (e.hasher = "const"), hasher |-> e.hasher, nkeys |-> e.nkeys]

SeqProps == {"C04", "C08", "C10", "C11"}

\* C16 beside concurrent writers. Every key is written by one thread with sequence numbers
\* 1, 2, ... (0 is the initial insert); nothing is ever removed. An iteration must yield every
\* key exactly once, with a value that was current at some moment between its invocation and
\* its return: written not after the return, and not overwritten before the invocation.
WritesOf(k) == LET S == {i \in DOMAIN kw : kw[i].k = k} IN IF S = {} THEN <<>> ELSE kw[CHOOSE i \in S : TRUE].w
IterOk(e) ==
    /\ NoDup([i \in DOMAIN e.items |-> e.items[i].k])
    /\ \A k \in 1..cfg.nkeys : \E i \in DOMAIN e.items : e.items[i].k = k
    /\ \A i \in DOMAIN e.items :
          LET w == WritesOf(e.items[i].k)  s == e.items[i].s IN
          /\ s <= Len(w)
          /\ (s > 0 => w[s][1] <= e.ret)
          /\ (s < Len(w) => w[s + 1][2] >= e.inv)

AllowedHere(p, e) ==
    CASE p = "C02" -> Allowed_C02(ps, e)
      [] p = "C05" -> Allowed_C05c(cfg, ps, e)
      [] p = "C06" -> Allowed_C06c(cfg, ps, e)
      [] p = "C09" -> /\ e.ev # "Timeout"
                      /\ e.ev = "Final" => open = {}          \* every invoked operation returned
                      /\ e.ev = "Burst" => e.completed = e.ops
                      \* one maintenance run is bounded (MAX_SYNC_REPEATS rounds of at most a queue's
                      \* length each), whatever the other threads do meanwhile: the writers it makes
                      \* room for complete at most `budget` inserts before it returns to its own call
                      /\ e.ev = "MaintRun" => e.max_others <= e.budget
                      /\ e.ev = "Settled" => (e.rlen = 0 /\ e.wlen = 0)   \* maintenance keeps running
      [] p = "C04" /\ e.ev \in {"Overshoot", "Settled"} ->
            \* between maintenance runs: at most the write queue plus one entry per inserting thread
            IF e.cap = None THEN TRUE
            ELSE IF e.ev = "Overshoot"
            THEN \* exact counts are taken by the controller while every thread is parked; a count taken
                 \* by iterating beside running writers is not a snapshot (entries inserted and evicted
                 \* during the walk can both be seen), so it is only required to stay bounded
                 \* (+ 1: the record that maintenance has taken from the queue and not yet applied; it
                 \* stands between two accesses to the map, switch point m.w2)
                 IF "exact" \in DOMAIN e /\ e.exact THEN e.count <= e.cap + e.wlog + e.threads + 1
                 ELSE e.count <= e.cap + 2 * (e.wlog + e.threads)
            ELSE e.count <= e.cap
      [] p = "C03" -> /\ e.ev = "Refill" => e.kept = e.want
                      /\ Allowed_C03c(cfg, ps, e)          \* (a) nothing unambiguously last is missing at the end
                      \* (b) the probe: a fresh key weighing exactly the room left gets in, nobody leaves
                      /\ e.ev = "Probe" =>
                            /\ \E j \in DOMAIN e.after : e.after[j].k = e.k /\ e.after[j].v = e.v
                            /\ \A i \in DOMAIN e.before :
                                  \E j \in DOMAIN e.after : e.after[j].k = e.before[i].k /\ e.after[j].v = e.before[i].v
      [] p = "C16" -> /\ e.ev = "IterRun" => IterOk(e)
                      /\ Allowed_C03c(cfg, ps, e)          \* the final iteration omits nothing that is surely live
                      /\ e.ev = "Final" => NoDup([i \in DOMAIN e.items |-> e.items[i].k])
      [] p \in SeqProps ->
            IF e.ev \in {"Sync", "End", "Panic", "Crash"}
            THEN M!AllowedBy(p, M!HInit(cfg), M!InitSnap(cfg), e) ELSE TRUE
      [] OTHER -> TRUE

NonTrivial(p, e) ==
    CASE p = "C02" -> (e.ev = "Ret" /\ e.r # None /\ \E q \in ps.gets : q.id = e.id) \/ e.ev = "Final"
      [] p = "C05" -> NT_C05c(cfg, ps, e) /\ e.r # None
      [] p = "C06" -> NT_C06c(cfg, ps, e) /\ e.r # None
      [] p = "C09" -> e.ev \in {"Ret", "Final", "Timeout", "Burst", "Settled", "MaintRun"}
      [] p = "C04" /\ e.ev \in {"Overshoot", "Settled"} -> e.cap # None
      [] p = "C03" -> e.ev \in {"Refill", "Probe", "Final"}
      [] p = "C16" -> e.ev \in {"IterRun", "Final"}
      [] OTHER -> e.ev \in {"Sync", "End"}

Next ==
    /\ l <= Len(Rec) /\ l' = l + 1
    /\ LET e == Rec[l] IN
       IF e.ev = "Config"
       THEN /\ ps' = P02Init /\ open' = {} /\ cfg' = CfgOf(e) /\ failed' = {} /\ bid' = e.id /\ kw' = <<>>
            /\ stats' = [stats EXCEPT !.behaviours = @ + 1]
            /\ (l = Len(Rec) => PrintT(<<"STATS", ToJson(stats')>>))
       ELSE LET judged == CheckProps \ failed
                rejecting == {p \in judged : ~AllowedHere(p, e)}
                st1 == [stats EXCEPT !.events = @ + 1,
                                     !.nt = [p \in CheckProps |-> IF p \in judged /\ NonTrivial(p, e) THEN @[p] + 1 ELSE @[p]],
                                     !.viol = [p \in CheckProps |-> IF p \in rejecting THEN @[p] + 1 ELSE @[p]]]
            IN /\ \A p \in rejecting : PrintT(<<"VIOL", p, bid, l>>)
               /\ failed' = failed \cup rejecting
               /\ ps' = IF e.ev \in {"Inv", "Ret"} THEN P02Update(ps, e) ELSE ps
               /\ open' = CASE e.ev = "Inv" -> open \cup {e.id}
                            [] e.ev = "Ret" -> open \ {e.id}
                            [] OTHER -> open
               /\ UNCHANGED <<cfg, bid>>
               /\ kw' = IF e.ev = "KeyWrites" THEN Append(kw, [k |-> e.k, w |-> e.w]) ELSE kw
               /\ stats' = st1
               /\ (l = Len(Rec) => PrintT(<<"STATS", ToJson(st1)>>))

Spec == Init /\ [][Next]_vars
Consumed == TLCGet("stats").diameter = Len(Rec) + 1
=============================================================================
