------------------------------- MODULE Deque -------------------------------
(* Layer I of src/common/deque.rs: the intrusive doubly linked list with a   *)
(* built-in cursor, pointer surgery written as in the code.  Nodes are named *)
(* by allocation order (never reused), 0 is the null pointer.                *)
(*                                                                           *)
(*   node   Id -> [prev, next, elem, st]  st: "new" (not allocated),         *)
(*          "in" (owned by the list), "freed"                                *)
(*   head, tail, len, cur   cur: 0 no cursor, -1 Done, else a node           *)
(*   nalloc number of nodes allocated so far                                 *)
(*   crash  a freed or foreign node was dereferenced / unreachable! was hit  *)
EXTENDS Common, TLC

CONSTANTS MaxAlloc

Ids == 1..MaxAlloc
NoNode == [prev |-> 0, next |-> 0, elem |-> 0, st |-> "new"]

DInit == [node |-> [i \in Ids |-> NoNode], head |-> 0, tail |-> 0, len |-> 0, cur |-> 0,
          nalloc |-> 0, crash |-> FALSE]

Live(s, n) == n \in Ids /\ s.node[n].st = "in"

\* advance_cursor
AdvanceCursor(s) ==
    IF s.cur = 0 THEN s
    ELSE IF s.cur = -1 THEN [s EXCEPT !.cur = 0]
    ELSE IF s.node[s.cur].next # 0 THEN [s EXCEPT !.cur = s.node[s.cur].next]
    ELSE [s EXCEPT !.cur = -1]

AtCursor(s, n) == s.cur = n

\* contains(): node.prev.is_some() || is_head(node)
DContains(s, n) == s.node[n].prev # 0 \/ s.head = n

DPushBack(s, e) ==
    LET n == s.nalloc + 1
        s1 == [s EXCEPT !.node[n] = [prev |-> s.tail, next |-> 0, elem |-> e, st |-> "in"],
                        !.nalloc = n, !.len = s.len + 1, !.tail = n]
    IN IF s.tail = 0 THEN [s1 EXCEPT !.head = n] ELSE [s1 EXCEPT !.node[s.tail].next = n]

\* pop_front: <<state, element or None>>
DPopFront(s) ==
    IF s.head = 0 THEN <<s, None>>
    ELSE LET n == s.head
             s1 == IF AtCursor(s, n) THEN AdvanceCursor(s) ELSE s
             nh == s1.node[n].next
             s2 == [s1 EXCEPT !.head = nh, !.len = s.len - 1,
                              !.node[n] = [@ EXCEPT !.prev = 0, !.next = 0, !.st = "freed"]]
         IN <<IF nh = 0 THEN [s2 EXCEPT !.tail = 0] ELSE [s2 EXCEPT !.node[nh].prev = 0], s.node[n].elem>>

\* move_to_back(node); the caller guarantees membership (unsafe fn)
DMoveToBack(s0, n) ==
    IF ~Live(s0, n) THEN [s0 EXCEPT !.crash = TRUE]
    ELSE IF s0.tail = n THEN s0
    ELSE LET s == IF AtCursor(s0, n) THEN AdvanceCursor(s0) ELSE s0
             p == s.node[n].prev
             x == s.node[n].next
             \* match node.prev { Some(prev) if node.next.is_some() => prev.next = node.next,
             \*                   Some(..) => (), None => self.head = node.next }
             s1 == IF p # 0 THEN (IF x # 0 THEN [s EXCEPT !.node[p].next = x] ELSE s)
                   ELSE [s EXCEPT !.head = x]
         IN IF x = 0 THEN s1
            ELSE IF s1.tail = 0 THEN [s1 EXCEPT !.crash = TRUE]       \* unreachable!()
            ELSE LET t == s1.tail
                 IN [s1 EXCEPT !.node[x].prev = p,
                               !.node[n] = [@ EXCEPT !.next = 0, !.prev = t],
                               !.node[t].next = n, !.tail = n]

DMoveFrontToBack(s) == IF s.head = 0 THEN s ELSE DMoveToBack(s, s.head)

\* unlink(node): does not free
DUnlink(s0, n) ==
    IF ~Live(s0, n) THEN [s0 EXCEPT !.crash = TRUE]
    ELSE LET s == IF AtCursor(s0, n) THEN AdvanceCursor(s0) ELSE s0
             p == s.node[n].prev
             x == s.node[n].next
             s1 == IF p # 0 THEN [s EXCEPT !.node[p].next = x] ELSE [s EXCEPT !.head = x]
             s2 == IF x # 0 THEN [s1 EXCEPT !.node[x].prev = p] ELSE [s1 EXCEPT !.tail = p]
         IN [s2 EXCEPT !.node[n] = [@ EXCEPT !.prev = 0, !.next = 0], !.len = s.len - 1]

DUnlinkAndDrop(s, n) ==
    LET s1 == DUnlink(s, n) IN IF s1.crash THEN s1 ELSE [s1 EXCEPT !.node[n].st = "freed"]

\* Iterator::next for &mut Deque: <<state, element or None>>
DIterNext(s) ==
    LET s1 == IF s.cur = 0 /\ s.head # 0 THEN [s EXCEPT !.cur = s.head] ELSE s
        e == IF s1.cur > 0 THEN s1.node[s1.cur].elem ELSE None
    IN <<AdvanceCursor(s1), e>>

-----------------------------------------------------------------------------
(* Well-formedness (C08) and the abstraction to a sequence                   *)

RECURSIVE Walk(_, _, _)
Walk(s, n, fuel) == IF n = 0 \/ fuel = 0 THEN <<>> ELSE <<n>> \o Walk(s, s.node[n].next, fuel - 1)

Members(s) == Walk(s, s.head, MaxAlloc + 1)
Abs(s) == [i \in DOMAIN Members(s) |-> s.node[Members(s)[i]].elem]

WF(s) ==
    LET m == Members(s) IN
    /\ Len(m) = s.len /\ NoDup(m)
    /\ \A i \in DOMAIN m : s.node[m[i]].st = "in"
    /\ (s.len = 0) => (s.head = 0 /\ s.tail = 0)
    /\ (s.len > 0) => (s.head = m[1] /\ s.tail = m[Len(m)] /\ s.node[m[1]].prev = 0
                       /\ s.node[m[Len(m)]].next = 0)
    /\ \A i \in 1..(Len(m) - 1) : s.node[m[i + 1]].prev = m[i]
    /\ s.cur \in {0, -1} \cup Range(m)
    \* ownership (C11): an allocated node is a member or has been released, never both
    /\ \A n \in 1..s.nalloc : (s.node[n].st = "in") <=> InSeq(m, n) \/ (s.node[n].st = "in" /\ FALSE)

\* One operation of the facade: o is [op, n, e]; returns [s, r]
DDo(s, o) ==
    CASE o.op = "PushBack" -> [s |-> DPushBack(s, o.e), r |-> s.nalloc + 1]
      [] o.op = "PopFront" -> LET x == DPopFront(s) IN [s |-> x[1], r |-> x[2]]
      [] o.op = "MoveToBack" -> [s |-> DMoveToBack(s, o.n), r |-> 0]
      [] o.op = "MoveFrontToBack" -> [s |-> DMoveFrontToBack(s), r |-> 0]
      [] o.op = "UnlinkAndDrop" -> [s |-> DUnlinkAndDrop(s, o.n), r |-> 0]
      [] o.op = "IterNext" -> LET x == DIterNext(s) IN [s |-> x[1], r |-> x[2]]
      [] o.op = "Contains" -> [s |-> s, r |-> IF DContains(s, o.n) THEN 1 ELSE 0]

DDump(s) == [head |-> s.head, tail |-> s.tail, len |-> s.len, cur |-> s.cur,
             nodes |-> [i \in DOMAIN Members(s) |->
                          [id |-> Members(s)[i], prev |-> s.node[Members(s)[i]].prev,
                           next |-> s.node[Members(s)[i]].next, elem |-> s.node[Members(s)[i]].elem]]]
=============================================================================
