------------------------------- MODULE Sketch -------------------------------
(* Layer I of src/common/frequency_sketch.rs and the monitor of property C14 *)
(* (sketch-level clauses).                                                   *)
(*                                                                           *)
(* A hash is abstracted to what the code derives from it: the four counters  *)
(* (slot, column) it touches.  pos[h] is a sequence of four <<slot, col>>    *)
(* pairs; the hook reports them for real hashes, the model-checking configs  *)
(* choose colliding and disjoint families.                                   *)
(*                                                                           *)
(*   tab    used counter positions -> 0..15 (every other counter is 0)       *)
(*   size   FrequencySketch.size       sample  sample_size                   *)
(*   tlen   table length (0: no table yet)                                   *)
(*   crash  arithmetic overflow inside the library                           *)
EXTENDS Common, TLC

CONSTANT SkDev      \* deviations: "F8" = the pre-fix reset arithmetic

Positions(pos) == UNION {Range(pos[h]) : h \in DOMAIN pos}

NextPow2(n) == CHOOSE p \in {2^i : i \in 0..30} : p >= n /\ \A q \in {2^i : i \in 0..30} : q >= n => p <= q

\* ensure_capacity on a fresh sketch: <<table length, sample size>>
TableFor(cap) ==
    LET maximum == Min(cap, 2^30)
        tl == IF maximum = 0 THEN 1 ELSE NextPow2(maximum)
        sample == IF cap = 0 THEN 10 ELSE Min(10 * maximum, 2147483647)
    IN <<tl, sample>>

SkInit(cap, pos) ==
    [tlen |-> TableFor(cap)[1], sample |-> TableFor(cap)[2], size |-> 0, pos |-> pos,
     tab |-> [p \in Positions(pos) |-> 0], crash |-> FALSE, aged |-> FALSE]

SkFrequency(s, h) ==
    LET c == [d \in 1..4 |-> s.tab[s.pos[h][d]]]
    IN Min(Min(c[1], c[2]), Min(c[3], c[4]))

SkReset(s) ==
    LET odd == Cardinality({p \in DOMAIN s.tab : s.tab[p] % 2 = 1})
        half == [p \in DOMAIN s.tab |-> s.tab[p] \div 2]
        q == odd \div 4
    IN IF "F8" \in SkDev
       THEN IF (s.size \div 2) < q
            THEN [s EXCEPT !.tab = half, !.crash = TRUE, !.aged = TRUE]
            ELSE [s EXCEPT !.tab = half, !.size = (s.size \div 2) - q, !.aged = TRUE]
       ELSE IF s.size < q
            THEN [s EXCEPT !.tab = half, !.crash = TRUE, !.aged = TRUE]
            ELSE [s EXCEPT !.tab = half, !.size = (s.size - q) \div 2, !.aged = TRUE]

\* increment: the four counters one after the other (a hash may name one counter twice)
RECURSIVE IncAt(_, _, _, _)
IncAt(tab, ps, d, added) ==
    IF d > 4 THEN <<tab, added>>
    ELSE IF tab[ps[d]] < 15
         THEN IncAt([tab EXCEPT ![ps[d]] = @ + 1], ps, d + 1, TRUE)
         ELSE IncAt(tab, ps, d + 1, added)

SkIncrement(s0, h) ==
    LET s == [s0 EXCEPT !.aged = FALSE]
        r == IncAt(s.tab, s.pos[h], 1, FALSE)
    IN IF s.tlen = 0 THEN s
       ELSE IF ~r[2] THEN [s EXCEPT !.tab = r[1]]
       ELSE LET s1 == [s EXCEPT !.tab = r[1], !.size = s.size + 1]
            IN IF s1.size >= s1.sample THEN SkReset(s1) ELSE s1

SkEst(s) == [h \in DOMAIN s.pos |-> SkFrequency(s, h)]

-----------------------------------------------------------------------------
(* The monitor of C14: state is the ideal count c[h] of every hash; an event *)
(* is [g: the incremented hash, est: estimates after, aged].                 *)

Shares(pos, a, b) == Range(pos[a]) \cap Range(pos[b]) # {}
Alone(pos, h) == \A o \in DOMAIN pos : o # h => ~Shares(pos, h, o)

PInit14(pos) == [pos |-> pos, c |-> [h \in DOMAIN pos |-> 0], est |-> [h \in DOMAIN pos |-> 0]]

PUpdate14(ps, e) ==
    LET c1 == [ps.c EXCEPT ![e.g] = Min(15, @ + 1)]
    IN [ps EXCEPT !.c = IF e.aged THEN [h \in DOMAIN c1 |-> c1[h] \div 2] ELSE c1, !.est = e.est]

Allowed_Sk14(ps, e) ==
    LET nxt == PUpdate14(ps, e)
        old == ps.est
        H == DOMAIN ps.pos
    IN /\ \A h \in H : e.est[h] <= 15 /\ e.est[h] >= nxt.c[h]          \* bounded, never underestimates
       /\ \A h \in H : Alone(ps.pos, h) => e.est[h] = nxt.c[h]          \* exact without collisions
       /\ IF ~e.aged
          THEN /\ e.est[e.g] = Min(15, old[e.g] + 1)                    \* recorded exactly once
               /\ \A h \in H : e.est[h] >= old[h]                       \* others never lowered
               /\ \A h \in H : (h # e.g /\ ~Shares(ps.pos, h, e.g)) => e.est[h] = old[h]
          ELSE /\ e.est[e.g] = Min(15, old[e.g] + 1) \div 2
               /\ \A h \in H : e.est[h] >= old[h] \div 2
               /\ \A h \in H : e.est[h] <= (Min(15, old[h] + 1)) \div 2
                                 \/ (~Shares(ps.pos, h, e.g) /\ e.est[h] = old[h] \div 2)
               /\ \A h \in H : (h # e.g /\ ~Shares(ps.pos, h, e.g)) => e.est[h] = old[h] \div 2

=============================================================================
