------------------------------ MODULE MC_Deque ------------------------------
(* Every operation sequence on the intrusive list up to MaxAlloc allocations *)
(* and MaxLive simultaneous members: well-formedness after every step, and   *)
(* refinement of a plain sequence.                                           *)
EXTENDS Deque, Json

CONSTANTS MaxLive, Emit, MaxDepth

VARIABLES s, q, h     \* q: the sequence the list is meant to implement
vars == <<s, q, h>>
View == <<s, q>>

Ops(st) ==
    (IF st.nalloc < MaxAlloc /\ st.len < MaxLive THEN [op : {"PushBack"}, e : {st.nalloc + 1}] ELSE {})
    \cup [op : {"PopFront", "MoveFrontToBack", "IterNext"}]
    \cup [op : {"MoveToBack", "UnlinkAndDrop", "Contains"}, n : {n \in Ids : Live(st, n)}]

\* the specification of each operation on the abstract sequence
AbsNext(qq, o, st) ==
    CASE o.op = "PushBack" -> Append(qq, o.e)
      [] o.op = "PopFront" -> IF qq = <<>> THEN qq ELSE Tail(qq)
      [] o.op = "MoveToBack" -> MoveToBack(qq, st.node[o.n].elem)
      [] o.op = "MoveFrontToBack" -> IF qq = <<>> THEN qq ELSE Append(Tail(qq), Head(qq))
      [] o.op = "UnlinkAndDrop" -> Without(qq, st.node[o.n].elem)
      [] OTHER -> qq

Init == s = DInit /\ q = <<>> /\ h = <<>>

Next == \E o \in Ops(s) :
          LET r == DDo(s, o) IN
          /\ s' = r.s
          /\ q' = AbsNext(q, o, s)
          /\ h' = IF Emit \/ MaxDepth > 0 THEN Append(h, o) ELSE h
          /\ (Emit => PrintT(<<"EDGE", ToJson([ops |-> h', last |-> [r |-> r.r, dump |-> DDump(r.s)]])>>))

Spec == Init /\ [][Next]_vars
WellFormed == WF(s) /\ ~s.crash
Refines == Abs(s) = q
PopReturnsHead == TRUE
Depth == Len(h) < MaxDepth
=============================================================================
