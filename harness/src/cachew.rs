//! A uniform wrapper over `unsync::Cache` and `sync::Cache` that executes abstract
//! operations and reports what can be observed, as JSON events.

use crate::types::*;
use mini_moka::sync::ConcurrentCacheExt;
use mini_moka::verif::{DequeDump, MockClock};
use serde_json::{json, Map, Value};
use std::collections::HashMap;
use std::sync::atomic::Ordering;
use std::sync::{Arc, Mutex};
use std::time::{Duration, Instant};

pub type UCache = mini_moka::unsync::Cache<K, Val, HBuild>;
pub type SCache = mini_moka::sync::Cache<K, Val, HBuild>;

/// Boundary durations used by the builder enumeration (C17), by index.
pub const YEAR: u64 = 365 * 24 * 3600;
pub fn dur_of_idx(i: i64) -> Duration {
    match i {
        0 => Duration::from_secs(0),
        1 => Duration::from_secs(1),
        2 => Duration::from_secs(1000 * YEAR) - Duration::from_nanos(1),
        3 => Duration::from_secs(1000 * YEAR),
        4 => Duration::from_secs(1000 * YEAR) + Duration::from_nanos(1),
        5 => Duration::from_secs(1001 * YEAR),
        _ => panic!("bad duration index"),
    }
}

#[derive(Clone, Debug)]
pub struct Cfg {
    pub kind: String, // "unsync" | "sync"
    pub cap: i64,     // -1: none
    pub ttl: i64,     // seconds, -1: none
    pub tti: i64,
    pub weigher: bool,
    pub hasher: String, // "id" | "const" | "mix"
    pub nkeys: u32,
    pub lean: bool, // no iteration / deque dump in snapshots
    pub init_cap: i64,
    pub via_new: bool,
    pub seed: u64,
    /// weights and the capacity are multiplied by this factor on their way into the cache and divided
    /// by it on their way out: the trace stays in small units while the code works near u32::MAX
    pub wscale: u64,
    /// the weigher looks its key up in the cache it belongs to (concurrent cache only)
    pub reent: bool,
}

/// the handle through which a re-entrant weigher reaches its own cache (emptied before the cache
/// is dropped: the closure would otherwise keep the cache alive)
pub type ReentCell = Arc<Mutex<Option<mini_moka::sync::Cache<K, Val, HBuild>>>>;

impl Cfg {
    pub fn from_json(v: &Value) -> Cfg {
        let gi = |k: &str, d: i64| v.get(k).and_then(|x| x.as_i64()).unwrap_or(d);
        let gb = |k: &str, d: bool| v.get(k).and_then(|x| x.as_bool()).unwrap_or(d);
        let gs = |k: &str, d: &str| {
            v.get(k)
                .and_then(|x| x.as_str())
                .unwrap_or(d)
                .to_string()
        };
        Cfg {
            kind: gs("kind", "unsync"),
            cap: gi("cap", -1),
            ttl: gi("ttl", -1),
            tti: gi("tti", -1),
            weigher: gb("weigher", false),
            hasher: gs("hasher", "id"),
            nkeys: gi("nkeys", 4) as u32,
            lean: gb("lean", false),
            init_cap: gi("init_cap", -1),
            via_new: gb("via_new", false),
            seed: gi("seed", 0) as u64,
            wscale: if gb("weigher", false) { gi("wscale", 1).max(1) as u64 } else { 1 },
            reent: gb("reent", false),
        }
    }
    pub fn to_json(&self) -> Value {
        json!({"kind": self.kind, "cap": self.cap, "ttl": self.ttl, "tti": self.tti,
               "weigher": self.weigher, "hasher": self.hasher, "nkeys": self.nkeys,
               "lean": self.lean, "init_cap": self.init_cap, "via_new": self.via_new,
               "seed": self.seed, "wscale": self.wscale})
    }
    pub fn hash_mode(&self) -> HashMode {
        match self.hasher.as_str() {
            "id" => HashMode::Id,
            "const" => HashMode::Const,
            _ => HashMode::Mix(self.seed),
        }
    }
}

pub enum AnyCache {
    U(Box<UCache>),
    S(SCache),
}

pub struct World {
    pub cfg: Cfg,
    pub cache: Option<AnyCache>,
    pub clock: MockClock,
    pub base: Instant,
    pub mx: Arc<Mutex<Vec<Value>>>,
    last_resets: std::cell::Cell<u32>,
    info_ids: Arc<Mutex<HashMap<usize, i64>>>,
    reent_cell: Option<ReentCell>,
}

impl Drop for World {
    fn drop(&mut self) {
        if let Some(c) = &self.reent_cell {
            *c.lock().unwrap() = None;
        }
    }
}

fn ticks(base: Instant, t: Option<Instant>) -> i64 {
    match t {
        None => -1,
        Some(t) => {
            let d = t.duration_since(base);
            assert!(d.subsec_nanos() == 0, "timestamp is not a whole tick");
            d.as_secs() as i64
        }
    }
}

pub fn build_cache(cfg: &Cfg) -> AnyCache {
    build_cache_reent(cfg).0
}

pub fn build_cache_reent(cfg: &Cfg) -> (AnyCache, Option<ReentCell>) {
    let hb = HBuild {
        mode: cfg.hash_mode(),
    };
    if cfg.kind == "unsync" {
        let mut b = mini_moka::unsync::Cache::builder();
        if cfg.cap >= 0 {
            b = b.max_capacity(cfg.cap as u64 * cfg.wscale);
        }
        if cfg.init_cap >= 0 {
            b = b.initial_capacity(cfg.init_cap as usize);
        }
        if cfg.weigher {
            b = b.weigher(|_k: &K, v: &Val| v.w);
        }
        if cfg.ttl >= 0 {
            b = b.time_to_live(Duration::from_secs(cfg.ttl as u64));
        }
        if cfg.tti >= 0 {
            b = b.time_to_idle(Duration::from_secs(cfg.tti as u64));
        }
        (AnyCache::U(Box::new(b.build_with_hasher(hb))), None)
    } else {
        let cell: ReentCell = Arc::new(Mutex::new(None));
        let mut b = mini_moka::sync::Cache::builder();
        if cfg.cap >= 0 {
            b = b.max_capacity(cfg.cap as u64 * cfg.wscale);
        }
        if cfg.init_cap >= 0 {
            b = b.initial_capacity(cfg.init_cap as usize);
        }
        if cfg.weigher {
            if cfg.reent {
                let cell2 = Arc::clone(&cell);
                b = b.weigher(move |k: &K, v: &Val| {
                    let c = cell2.lock().unwrap().clone();
                    if let Some(c) = c {
                        let _ = c.contains_key(k);
                    }
                    v.w
                });
            } else {
                b = b.weigher(|_k: &K, v: &Val| v.w);
            }
        }
        if cfg.ttl >= 0 {
            b = b.time_to_live(Duration::from_secs(cfg.ttl as u64));
        }
        if cfg.tti >= 0 {
            b = b.time_to_idle(Duration::from_secs(cfg.tti as u64));
        }
        let c = b.build_with_hasher(hb);
        if cfg.reent && cfg.weigher {
            *cell.lock().unwrap() = Some(c.clone());
            (AnyCache::S(c), Some(cell))
        } else {
            (AnyCache::S(c), None)
        }
    }
}

impl World {
    pub fn new(cfg: Cfg) -> World {
        if cfg.hasher == "id" {
            // (2048 counters in the smallest table: at most 512 keys with disjoint counters)
            assert!(cfg.nkeys <= 300, "harness: too many keys for the table of disjoint hashes");
            init_id_hashes(cfg.nkeys.max(40) as usize);
        }
        let clock = MockClock::new();
        let base = clock.now();
        let mx: Arc<Mutex<Vec<Value>>> = Arc::new(Mutex::new(Vec::new()));
        let info_ids: Arc<Mutex<HashMap<usize, i64>>> = Arc::new(Mutex::new(HashMap::new()));
        let (mut cache, reent_cell) = build_cache_reent(&cfg);
        match &mut cache {
            AnyCache::U(c) => c.verif_set_clock(&clock),
            AnyCache::S(c) => {
                c.verif_set_clock(&clock);
                let mx2 = Arc::clone(&mx);
                let ids = Arc::clone(&info_ids);
                c.verif_set_tracer(Some(Box::new(move |e| {
                    let i = if e.info_id == 0 {
                        0
                    } else {
                        let mut g = ids.lock().unwrap();
                        let n = g.len() as i64 + 1;
                        *g.entry(e.info_id).or_insert(n)
                    };
                    let k = e.key.map(|k| k.id as i64).unwrap_or(-1);
                    mx2.lock()
                        .unwrap()
                        .push(json!({"t": e.tag, "k": k, "i": i, "a": e.a, "b": e.b}));
                })));
            }
        }
        World {
            cfg,
            cache: Some(cache),
            clock,
            base,
            mx,
            last_resets: std::cell::Cell::new(0),
            info_ids,
            reent_cell,
        }
    }

    /// Wraps an existing cache (used after a multi-threaded phase).
    pub fn adopt(cfg: Cfg, cache: AnyCache, clock: MockClock, base: Instant) -> World {
        World {
            cfg,
            cache: Some(cache),
            clock,
            base,
            mx: Arc::new(Mutex::new(Vec::new())),
            last_resets: std::cell::Cell::new(0),
            info_ids: Arc::new(Mutex::new(HashMap::new())),
            reent_cell: None,
        }
    }

    pub fn now(&self) -> i64 {
        ticks(self.base, Some(self.clock.now()))
    }

    fn info_idx(&self, id: usize) -> i64 {
        if id == 0 {
            return 0;
        }
        let mut g = self.info_ids.lock().unwrap();
        let n = g.len() as i64 + 1;
        *g.entry(id).or_insert(n)
    }

    /// Renumbers addresses of one snapshot into small integers (0 = null).
    fn dump_json(d: &DequeDump, keys: &[i64], amap: &mut HashMap<usize, i64>) -> Value {
        let mut id = |a: usize| -> i64 {
            if a == 0 {
                0
            } else {
                let n = amap.len() as i64 + 1;
                *amap.entry(a).or_insert(n)
            }
        };
        let nodes: Vec<Value> = d
            .nodes
            .iter()
            .enumerate()
            .map(|(i, n)| json!({"id": id(n.addr), "prev": id(n.prev), "next": id(n.next), "k": keys.get(i).cloned().unwrap_or(-1)}))
            .collect();
        let cursor = match d.cursor {
            0 => 0,
            1 => -1,
            a => id(a),
        };
        json!({"head": id(d.head), "tail": id(d.tail), "len": d.len, "cur": cursor, "nodes": nodes})
    }

    pub fn snapshot(&self) -> Value {
        let base = self.base;
        let mut m = Map::new();
        let mut res: Vec<(u32, Value, usize, usize)> = Vec::new();
        let mut amap: HashMap<usize, i64> = HashMap::new();
        let nkeys = self.cfg.nkeys;
        let lean = self.cfg.lean;
        // weights and totals back in trace units; a value that is not a whole number of units
        // (arithmetic gone wrong) is reported as -1
        let sc = self.cfg.wscale;
        let weigher = self.cfg.weigher;
        let unscale_w = |w: u32| -> i64 {
            if !weigher || sc == 1 { w as i64 } else if w as u64 % sc == 0 { (w as u64 / sc) as i64 } else { -1 }
        };
        let unscale_ws = |w: u64| -> i64 {
            if !weigher || sc == 1 { w as i64 } else if w % sc == 0 { (w / sc) as i64 } else { -1 }
        };
        if self.cache.is_none() {
            return json!({"res": [], "ao": [], "wo": [], "ec": 0, "ws": 0, "va": -1, "rlen": 0, "wlen": 0,
                "dropped": true,
                "lk": LIVE_KEYS.load(Ordering::SeqCst), "lv": LIVE_VALS.load(Ordering::SeqCst),
                "dd": DOUBLE_DROPS.load(Ordering::SeqCst)});
        }
        match self.cache.as_ref().unwrap() {
            AnyCache::U(c) => {
                c.verif_visit_entries(|k, v, meta| {
                    res.push((
                        k.id,
                        json!({"k": k.id, "v": v.id, "w": unscale_w(meta.weight), "tw": if self.cfg.weigher { unscale_w(v.w) } else { 1 },
                           "la": ticks(base, meta.last_accessed), "lm": ticks(base, meta.last_modified),
                           "adm": meta.admitted, "dirty": false, "i": 0}),
                        meta.ao_node,
                        meta.wo_node,
                    ));
                });
                let mut aok = Vec::new();
                let ao = c.verif_dump_deque(1, |k| aok.push(k.id as i64));
                let mut wok = Vec::new();
                let wo = c.verif_dump_deque(3, |k| wok.push(k.id as i64));
                m.insert("ao".into(), json!(aok));
                m.insert("wo".into(), json!(wok));
                if !lean {
                    m.insert(
                        "dq".into(),
                        json!({"ao": Self::dump_json(&ao, &aok, &mut amap), "wo": Self::dump_json(&wo, &wok, &mut amap)}),
                    );
                }
                m.insert("ec".into(), json!(c.entry_count()));
                m.insert("ws".into(), json!(unscale_ws(c.weighted_size())));
                let fq: Vec<u8> = (1..=nkeys).map(|i| c.verif_freq(&K::probe(i))).collect();
                m.insert("fq".into(), json!(fq));
                let s = c.verif_sketch_state();
                m.insert(
                    "sk".into(),
                    json!({"on": s.enabled, "aged": s.resets != self.last_resets.replace(s.resets), "size": s.size, "sample": s.sample_size, "resets": s.resets, "tlen": s.table_len}),
                );
                m.insert("va".into(), json!(-1));
                m.insert("rlen".into(), json!(0));
                m.insert("wlen".into(), json!(0));
                if !lean {
                    let mut it: Vec<(u32, u32)> = c.iter().map(|(k, v)| (k.id, v.id)).collect();
                    it.sort();
                    m.insert(
                        "it".into(),
                        Value::Array(it.iter().map(|(k, v)| json!({"k": k, "v": v})).collect()),
                    );
                }
            }
            AnyCache::S(c) => {
                let mut raw = Vec::new();
                c.verif_visit_entries(|k, v, meta| {
                    raw.push((k.id, v.id, if self.cfg.weigher { unscale_w(v.w) } else { 1 }, meta));
                });
                for (k, v, tw, meta) in raw {
                    let i = self.info_idx(meta.info_id);
                    res.push((
                        k,
                        json!({"k": k, "v": v, "w": unscale_w(meta.weight), "tw": tw,
                           "la": ticks(base, meta.last_accessed), "lm": ticks(base, meta.last_modified),
                           "adm": meta.admitted, "dirty": meta.dirty, "i": i}),
                        meta.ao_node,
                        meta.wo_node,
                    ));
                }
                let mut aok = Vec::new();
                let ao = c.verif_dump_deque(1, |k| aok.push(k.id as i64));
                let mut wok = Vec::new();
                let wo = c.verif_dump_deque(3, |k| wok.push(k.id as i64));
                m.insert("ao".into(), json!(aok));
                m.insert("wo".into(), json!(wok));
                if let (Some(ao), Some(wo)) = (ao, wo) {
                    if !lean {
                        m.insert(
                            "dq".into(),
                            json!({"ao": Self::dump_json(&ao, &aok, &mut amap), "wo": Self::dump_json(&wo, &wok, &mut amap)}),
                        );
                    }
                }
                m.insert("ec".into(), json!(c.entry_count()));
                m.insert("ws".into(), json!(unscale_ws(c.weighted_size())));
                let fq: Vec<u8> = (1..=nkeys).map(|i| c.verif_freq(&K::probe(i))).collect();
                m.insert("fq".into(), json!(fq));
                let s = c.verif_sketch_state();
                m.insert(
                    "sk".into(),
                    json!({"on": s.enabled, "aged": s.resets != self.last_resets.replace(s.resets), "size": s.size, "sample": s.sample_size, "resets": s.resets, "tlen": s.table_len}),
                );
                m.insert("va".into(), json!(ticks(base, c.verif_valid_after())));
                let (r, w) = c.verif_channel_lens();
                m.insert("rlen".into(), json!(r));
                m.insert("wlen".into(), json!(w));
                if !lean {
                    let mut it: Vec<(u32, u32)> =
                        c.iter().map(|e| (e.key().id, e.value().id)).collect();
                    it.sort();
                    m.insert(
                        "it".into(),
                        Value::Array(it.iter().map(|(k, v)| json!({"k": k, "v": v})).collect()),
                    );
                }
            }
        }
        res.sort_by_key(|r| r.0);
        let resv: Vec<Value> = res
            .into_iter()
            .map(|(_, mut v, aon, won)| {
                if !lean {
                    let o = v.as_object_mut().unwrap();
                    o.insert(
                        "aon".into(),
                        json!(if aon == 0 { 0 } else { *amap.get(&aon).unwrap_or(&-1) }),
                    );
                    o.insert(
                        "won".into(),
                        json!(if won == 0 { 0 } else { *amap.get(&won).unwrap_or(&-1) }),
                    );
                }
                v
            })
            .collect();
        m.insert("res".into(), Value::Array(resv));
        m.insert("lk".into(), json!(LIVE_KEYS.load(Ordering::SeqCst)));
        m.insert("lv".into(), json!(LIVE_VALS.load(Ordering::SeqCst)));
        m.insert("dd".into(), json!(DOUBLE_DROPS.load(Ordering::SeqCst)));
        Value::Object(m)
    }

    /// Executes one abstract operation and returns the event (without snapshot).
    pub fn exec(&mut self, op: &Value) -> Value {
        let name = op["op"].as_str().expect("op name").to_string();
        let now = self.now();
        let k = op.get("k").and_then(|x| x.as_u64()).unwrap_or(0) as u32;
        let mut ev = Map::new();
        ev.insert("ev".into(), json!(name));
        ev.insert("now".into(), json!(now));
        if op.get("extra").and_then(|x| x.as_bool()).unwrap_or(false) {
            ev.insert("extra".into(), json!(true));
        }
        match name.as_str() {
            "Insert" => {
                let v = op["v"].as_u64().unwrap() as u32;
                let w = op.get("w").and_then(|x| x.as_u64()).unwrap_or(1) as u32;
                ev.insert("k".into(), json!(k));
                ev.insert("v".into(), json!(v));
                ev.insert("w".into(), json!(if self.cfg.weigher { w } else { 1 }));
                match self.cache.as_mut().unwrap() {
                    AnyCache::U(c) => c.insert(K::new(k), Val::new(v, (w as u64 * self.cfg.wscale) as u32)),
                    AnyCache::S(c) => c.insert(K::new(k), Val::new(v, (w as u64 * self.cfg.wscale) as u32)),
                }
            }
            "Get" => {
                ev.insert("k".into(), json!(k));
                let r: i64 = match self.cache.as_mut().unwrap() {
                    AnyCache::U(c) => c.get(&K::probe(k)).map(|v| v.id as i64).unwrap_or(-1),
                    AnyCache::S(c) => c.get(&K::probe(k)).map(|v| v.id as i64).unwrap_or(-1),
                };
                ev.insert("r".into(), json!(r));
            }
            "Contains" => {
                ev.insert("k".into(), json!(k));
                let r = match self.cache.as_mut().unwrap() {
                    AnyCache::U(c) => c.contains_key(&K::probe(k)),
                    AnyCache::S(c) => c.contains_key(&K::probe(k)),
                };
                ev.insert("r".into(), json!(r));
            }
            "Invalidate" => {
                ev.insert("k".into(), json!(k));
                match self.cache.as_mut().unwrap() {
                    AnyCache::U(c) => c.invalidate(&K::probe(k)),
                    AnyCache::S(c) => c.invalidate(&K::probe(k)),
                }
            }
            "InvalidateAll" => match self.cache.as_mut().unwrap() {
                AnyCache::U(c) => c.invalidate_all(),
                AnyCache::S(c) => c.invalidate_all(),
            },
            "InvalidateIf" => {
                // predicate: key in `pk`, or (vm > 0 and value id % vm == vr)
                let pk: Vec<u32> = op
                    .get("pk")
                    .and_then(|x| x.as_array())
                    .map(|a| a.iter().map(|x| x.as_u64().unwrap() as u32).collect())
                    .unwrap_or_default();
                let vm = op.get("vm").and_then(|x| x.as_u64()).unwrap_or(0) as u32;
                let vr = op.get("vr").and_then(|x| x.as_u64()).unwrap_or(0) as u32;
                ev.insert("pk".into(), json!(pk));
                ev.insert("vm".into(), json!(vm));
                ev.insert("vr".into(), json!(vr));
                match self.cache.as_mut().unwrap() {
                    AnyCache::U(c) => c.invalidate_entries_if(move |k, v| {
                        pk.contains(&k.id) || (vm > 0 && v.id % vm == vr)
                    }),
                    AnyCache::S(_) => panic!("harness: sync cache has no invalidate_entries_if"),
                }
            }
            "Iter" => {
                let mut items: Vec<(u32, u32)> = match self.cache.as_mut().unwrap() {
                    AnyCache::U(c) => c.iter().map(|(k, v)| (k.id, v.id)).collect(),
                    AnyCache::S(c) => c.iter().map(|e| (e.key().id, e.value().id)).collect(),
                };
                // yield order is arbitrary: report in key order (duplicates are kept)
                items.sort();
                ev.insert(
                    "items".into(),
                    Value::Array(items.iter().map(|(k, v)| json!({"k": k, "v": v})).collect()),
                );
            }
            "Advance" => {
                let d = op["d"].as_u64().unwrap();
                ev.insert("d".into(), json!(d));
                self.clock.advance(Duration::from_secs(d));
            }
            "IterSplit" => {
                // an iterator that lives across a clock step: `take` items, the clock moves by
                // d, the rest. Logged as an Advance event carrying what was yielded before
                // (head, at the event's reading) and after (tail, d later).
                let d = op["d"].as_u64().unwrap();
                let take = op["take"].as_u64().unwrap() as usize;
                let xa = op.get("xa").and_then(|x| x.as_bool()).unwrap_or(false)
                    && matches!(self.cache.as_ref().unwrap(), AnyCache::S(_));
                let clock = self.clock.clone();
                let (mut head, mut tail): (Vec<(u32, u32)>, Vec<(u32, u32)>) = (Vec::new(), Vec::new());
                match self.cache.as_mut().unwrap() {
                    AnyCache::U(c) => {
                        let mut it = c.iter();
                        for _ in 0..take {
                            if let Some((k, v)) = it.next() {
                                head.push((k.id, v.id));
                            }
                        }
                        clock.advance(Duration::from_secs(d));
                        tail.extend(it.map(|(k, v)| (k.id, v.id)));
                    }
                    AnyCache::S(c) => {
                        let mut it = c.iter();
                        for _ in 0..take {
                            if let Some(e) = it.next() {
                                head.push((e.key().id, e.value().id));
                            }
                        }
                        clock.advance(Duration::from_secs(d));
                        if xa {
                            // the owner of the iterator calls invalidate_all() while it is alive
                            // (the call does not touch the map, so the API permits it)
                            c.invalidate_all();
                        }
                        tail.extend(it.map(|e| (e.key().id, e.value().id)));
                    }
                }
                head.sort();
                tail.sort();
                ev.insert("ev".into(), json!("Advance"));
                ev.insert("d".into(), json!(d));
                let js = |v: &Vec<(u32, u32)>| Value::Array(v.iter().map(|(k, v)| json!({"k": k, "v": v})).collect());
                ev.insert("head".into(), js(&head));
                ev.insert("tail".into(), js(&tail));
                if xa {
                    ev.insert("xa".into(), json!(true));
                }
            }
            "Sync" => match self.cache.as_mut().unwrap() {
                AnyCache::U(_) => {}
                AnyCache::S(c) => c.sync(),
            },
            "Drop" => {
                if let Some(c) = &self.reent_cell {
                    *c.lock().unwrap() = None;
                }
                self.cache = None;
            }
            other => panic!("harness: unknown op {}", other),
        }
        Value::Object(ev)
    }

    pub fn take_mx(&self) -> Vec<Value> {
        std::mem::take(&mut *self.mx.lock().unwrap())
    }
}
