//! Instrumented key / value types, hashers and small utilities.

use std::collections::HashSet;
use std::hash::{BuildHasher, Hash, Hasher};
use std::sync::atomic::{AtomicBool, AtomicI64, AtomicU64, Ordering};
use std::sync::Mutex;

pub static KEYS_MADE: AtomicU64 = AtomicU64::new(0);
pub static KEYS_DROPPED: AtomicU64 = AtomicU64::new(0);
pub static VALS_MADE: AtomicU64 = AtomicU64::new(0); // constructions + clones
pub static VALS_DROPPED: AtomicU64 = AtomicU64::new(0);
pub static LIVE_KEYS: AtomicI64 = AtomicI64::new(0);
pub static LIVE_VALS: AtomicI64 = AtomicI64::new(0);
pub static DOUBLE_DROPS: AtomicU64 = AtomicU64::new(0);
pub static REGISTRY_ON: AtomicBool = AtomicBool::new(true);
static SERIAL: AtomicU64 = AtomicU64::new(1);
static LIVE_SET: Mutex<Option<HashSet<u64>>> = Mutex::new(None);

fn reg_add(s: u64) {
    if REGISTRY_ON.load(Ordering::Relaxed) {
        let mut g = LIVE_SET.lock().unwrap_or_else(|e| e.into_inner());
        g.get_or_insert_with(HashSet::new).insert(s);
    }
}

fn reg_del(s: u64) {
    if REGISTRY_ON.load(Ordering::Relaxed) {
        let mut g = LIVE_SET.lock().unwrap_or_else(|e| e.into_inner());
        if !g.get_or_insert_with(HashSet::new).remove(&s) {
            DOUBLE_DROPS.fetch_add(1, Ordering::SeqCst);
        }
    }
}

pub fn reset_counters() {
    for c in [&KEYS_MADE, &KEYS_DROPPED, &VALS_MADE, &VALS_DROPPED, &DOUBLE_DROPS] {
        c.store(0, Ordering::SeqCst);
    }
    LIVE_KEYS.store(0, Ordering::SeqCst);
    LIVE_VALS.store(0, Ordering::SeqCst);
    let mut g = LIVE_SET.lock().unwrap_or_else(|e| e.into_inner());
    *g = Some(HashSet::new());
}

/// Cache key. `serial == 0` marks an untracked probe key used for lookups.
pub struct K {
    pub id: u32,
    serial: u64,
}

impl K {
    pub fn new(id: u32) -> K {
        let serial = SERIAL.fetch_add(1, Ordering::Relaxed);
        KEYS_MADE.fetch_add(1, Ordering::Relaxed);
        LIVE_KEYS.fetch_add(1, Ordering::SeqCst);
        reg_add(serial);
        K { id, serial }
    }
    pub fn probe(id: u32) -> K {
        K { id, serial: 0 }
    }
}

impl Drop for K {
    fn drop(&mut self) {
        if self.serial != 0 {
            KEYS_DROPPED.fetch_add(1, Ordering::Relaxed);
            LIVE_KEYS.fetch_sub(1, Ordering::SeqCst);
            reg_del(self.serial);
        }
    }
}

impl PartialEq for K {
    fn eq(&self, o: &K) -> bool {
        self.id == o.id
    }
}
impl Eq for K {}
thread_local! {
    /// Called whenever a key is hashed by this thread, i.e. right before every access to a hash map
    /// (the map hashes the key before it takes the lock of the shard). The schedule controller parks
    /// the thread there in its fine-grained mode: a switch point before every map access, also
    /// inside maintenance, without any hook in the library.
    pub static HASH_HOOK: std::cell::RefCell<Option<std::sync::Arc<dyn Fn() + Send + Sync>>> =
        const { std::cell::RefCell::new(None) };
}

impl Hash for K {
    fn hash<H: Hasher>(&self, state: &mut H) {
        let hook = HASH_HOOK.with(|h| h.borrow().clone());
        if let Some(f) = hook {
            f();
        }
        state.write_u32(self.id);
    }
}

/// Cache value: an identity, and the weight the weigher reports for it.
pub struct Val {
    pub id: u32,
    pub w: u32,
    serial: u64,
}

impl Val {
    pub fn new(id: u32, w: u32) -> Val {
        let serial = SERIAL.fetch_add(1, Ordering::Relaxed);
        VALS_MADE.fetch_add(1, Ordering::Relaxed);
        LIVE_VALS.fetch_add(1, Ordering::SeqCst);
        reg_add(serial);
        Val { id, w, serial }
    }
}

impl Clone for Val {
    fn clone(&self) -> Val {
        Val::new(self.id, self.w)
    }
}

impl Drop for Val {
    fn drop(&mut self) {
        VALS_DROPPED.fetch_add(1, Ordering::Relaxed);
        LIVE_VALS.fetch_sub(1, Ordering::SeqCst);
        reg_del(self.serial);
    }
}

/// How key ids are turned into 64-bit hashes.
#[derive(Clone, Copy, PartialEq, Eq, Debug)]
pub enum HashMode {
    /// A fixed table of hashes whose sketch counters are pairwise disjoint.
    Id,
    /// Every key hashes to the same value.
    Const,
    /// A mixing function (splitmix64) of the id and a seed.
    Mix(u64),
}

#[derive(Clone)]
pub struct HBuild {
    pub mode: HashMode,
}

pub struct H {
    mode: HashMode,
    acc: u64,
}

pub fn splitmix(mut z: u64) -> u64 {
    z = z.wrapping_add(0x9e37_79b9_7f4a_7c15);
    z = (z ^ (z >> 30)).wrapping_mul(0xbf58_476d_1ce4_e5b9);
    z = (z ^ (z >> 27)).wrapping_mul(0x94d0_49bb_1331_11eb);
    z ^ (z >> 31)
}

/// Hashes for `HashMode::Id`, filled by `init_id_hashes`.
static ID_HASHES: Mutex<Vec<u64>> = Mutex::new(Vec::new());

/// Finds, for key ids `0..=n`, hashes whose four sketch counters (in a table of
/// 128 slots, the size every small cache uses) are pairwise disjoint.
pub fn init_id_hashes(n: usize) {
    let mut g = ID_HASHES.lock().unwrap();
    if g.len() > n {
        return;
    }
    let mut sk = mini_moka::verif::Sketch::new();
    sk.ensure_capacity(128);
    let mut used: HashSet<(usize, u8)> = HashSet::new();
    let mut out = Vec::new();
    let mut cand: u64 = 1;
    for _id in 0..=n {
        loop {
            let h = splitmix(cand);
            cand += 1;
            let pos = sk.positions(h);
            let distinct: HashSet<(usize, u8)> = pos.iter().cloned().collect();
            if distinct.len() == 4 && pos.iter().all(|p| !used.contains(p)) {
                for p in pos.iter() {
                    used.insert(*p);
                }
                out.push(h);
                break;
            }
        }
    }
    *g = out;
}

pub fn id_hash(id: u32) -> u64 {
    let g = ID_HASHES.lock().unwrap();
    g.get(id as usize).cloned().unwrap_or_else(|| splitmix(id as u64 ^ 0xabcdef))
}

impl BuildHasher for HBuild {
    type Hasher = H;
    fn build_hasher(&self) -> H {
        H {
            mode: self.mode,
            acc: 0,
        }
    }
}

impl Hasher for H {
    fn finish(&self) -> u64 {
        match self.mode {
            HashMode::Id => id_hash(self.acc as u32),
            HashMode::Const => 0x5555_aaaa_5555_aaa8,
            HashMode::Mix(seed) => splitmix(self.acc ^ seed),
        }
    }
    fn write(&mut self, bytes: &[u8]) {
        for b in bytes {
            self.acc = (self.acc << 8) | (*b as u64);
        }
    }
    fn write_u32(&mut self, i: u32) {
        self.acc = i as u64;
    }
}

/// Small deterministic PRNG (xorshift*), so that no external crate is needed.
pub struct Rng(pub u64);

impl Rng {
    pub fn new(seed: u64) -> Rng {
        Rng(splitmix(seed) | 1)
    }
    pub fn next(&mut self) -> u64 {
        let mut x = self.0;
        x ^= x >> 12;
        x ^= x << 25;
        x ^= x >> 27;
        self.0 = x;
        x.wrapping_mul(0x2545_f491_4f6c_dd1d)
    }
    pub fn below(&mut self, n: u64) -> u64 {
        if n == 0 {
            0
        } else {
            self.next() % n
        }
    }
    pub fn chance(&mut self, num: u64, den: u64) -> bool {
        self.below(den) < num
    }
    pub fn pick<'a, T>(&mut self, xs: &'a [T]) -> &'a T {
        &xs[self.below(xs.len() as u64) as usize]
    }
}
