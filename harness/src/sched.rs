//! Mode S: real threads driven through the switch points of `sync::Cache` by a controller
//! that lets exactly one thread run between two points, following a given schedule.

use crate::cachew::*;
use crate::types::*;
use mini_moka::sync::ConcurrentCacheExt;
use mini_moka::verif::MockClock;
use serde_json::{json, Value};
use std::io::{BufRead, Write};
use std::sync::{Arc, Condvar, Mutex};
use std::time::{Duration, Instant};

#[derive(Clone, Debug, PartialEq)]
enum St {
    Running,
    Parked(&'static str),
    Finished,
}

struct Ctl {
    st: Vec<St>,
    grant: Vec<bool>,
    free_run: bool,
}

type Shared = Arc<(Mutex<Ctl>, Condvar)>;

fn park(sh: &Shared, t: usize, tag: &'static str) {
    let (m, cv) = &**sh;
    let mut g = m.lock().unwrap();
    if g.free_run {
        return;
    }
    g.st[t] = St::Parked(tag);
    cv.notify_all();
    while !g.grant[t] && !g.free_run {
        g = cv.wait(g).unwrap();
    }
    g.grant[t] = false;
    g.st[t] = St::Running;
}

fn is_maint(tag: &str) -> bool {
    tag.starts_with("m.")
}

pub struct RunOut {
    pub events: Vec<Value>,
    pub mismatch: Option<String>,
    pub abandoned: bool,
    pub hang: bool,
    pub steps: usize,
}

/// Executes one multi-threaded program under a schedule.
pub fn run_program(b: &Value, id: u64) -> RunOut {
    let cfg = Cfg::from_json(&b["cfg"]);
    let progs: Vec<Vec<Value>> = b["progs"]
        .as_array()
        .unwrap()
        .iter()
        .map(|p| p.as_array().unwrap().clone())
        .collect();
    let sched: Vec<usize> = b
        .get("sched")
        .and_then(|s| s.as_array())
        .map(|a| a.iter().map(|x| x.as_u64().unwrap() as usize - 1).collect())
        .unwrap_or_default();
    let seed = b.get("seed").and_then(|x| x.as_u64());
    let fine = b.get("fine").and_then(|x| x.as_bool()).unwrap_or(false);
    let n = progs.len();
    reset_counters();
    init_id_hashes(40);
    let clock = MockClock::new();
    let base = clock.now();
    // scaled maintenance queues (flush point, read slots, write slots): the schedule comes from a
    // model with small queues, and the code runs with the same sizes
    let scaled = b.get("scaled").and_then(|x| x.as_array()).map(|a| {
        let g = |i: usize| a[i].as_u64().unwrap() as usize;
        (g(0), g(1), g(2))
    });
    mini_moka::verif::set_scaled_queues(scaled);
    let cache: SCache = match build_cache(&cfg) {
        AnyCache::S(c) => c,
        _ => panic!("harness: sched needs a sync cache"),
    };
    cache.verif_set_clock(&clock);
    let log: Arc<Mutex<Vec<Value>>> = Arc::new(Mutex::new(Vec::new()));
    let mut cj = cfg.to_json();
    cj["ev"] = json!("Config");
    cj["id"] = json!(id);
    cj["threads"] = json!(n);
    log.lock().unwrap().push(cj);
    let sh: Shared = Arc::new((
        Mutex::new(Ctl {
            st: vec![St::Running; n],
            grant: vec![false; n],
            free_run: false,
        }),
        Condvar::new(),
    ));
    let mut handles = Vec::new();
    let rets = Arc::new(std::sync::atomic::AtomicUsize::new(0));
    for (t, prog) in progs.iter().enumerate() {
        let (sh2, log2, cache2, clock2, prog2, weigher) =
            (sh.clone(), log.clone(), cache.clone(), clock.clone(), prog.clone(), cfg.weigher);
        let rets2 = rets.clone();
        handles.push(std::thread::spawn(move || {
            let sh3 = sh2.clone();
            mini_moka::verif::set_point_handler(Some(Arc::new(move |tag| park(&sh3, t, tag))));
            if fine {
                // fine-grained mode: one more switch point before every map access of this thread
                let sh5 = sh2.clone();
                crate::types::HASH_HOOK.with(|h| {
                    *h.borrow_mut() = Some(Arc::new(move || park(&sh5, t, "key.hash")));
                });
            }
            for (ip, o) in prog2.iter().enumerate() {
                let op = o["op"].as_str().unwrap();
                let k = o.get("k").and_then(|x| x.as_u64()).unwrap_or(0) as u32;
                let opid = (t + 1) * 100 + ip + 1;
                let tick = {
                    let c = clock2.clone();
                    move || c.now().duration_since(base).as_secs() as i64
                };
                let inv = json!({"ev": "Inv", "t": t + 1, "id": opid, "op": op, "k": k,
                    "v": o.get("v").and_then(|x| x.as_u64()).unwrap_or(0)});
                // the operation starts when its first step is granted: log the invocation
                // from inside the first point
                let first = std::sync::atomic::AtomicBool::new(true);
                let log3 = log2.clone();
                let sh4 = sh2.clone();
                let inv2 = inv.clone();
                let clock3 = clock2.clone();
                mini_moka::verif::set_point_handler(Some(Arc::new(move |tag| {
                    park(&sh4, t, tag);
                    if first.swap(false, std::sync::atomic::Ordering::SeqCst) {
                        let mut e = inv2.clone();
                        e["now"] = json!(clock3.now().duration_since(base).as_secs() as i64);
                        log3.lock().unwrap().push(e);
                    }
                })));
                let mut r: i64 = -1;
                let outcome = std::panic::catch_unwind(std::panic::AssertUnwindSafe(|| {
                match op {
                    "Insert" => {
                        let v = o["v"].as_u64().unwrap() as u32;
                        let w = o.get("w").and_then(|x| x.as_u64()).unwrap_or(1) as u32;
                        let _ = weigher;
                        cache2.insert(K::new(k), Val::new(v, w));
                    }
                    "Get" => r = cache2.get(&K::probe(k)).map(|v| v.id as i64).unwrap_or(-1),
                    "Contains" => r = cache2.contains_key(&K::probe(k)) as i64,
                    "Invalidate" => cache2.invalidate(&K::probe(k)),
                    "InvalidateAll" => cache2.invalidate_all(),
                    "Sync" => cache2.sync(),
                    "Advance" => {
                        // a harness-level step
                        park(&sh2, t, "adv");
                        let mut e = inv.clone();
                        e["now"] = json!(tick());
                        log2.lock().unwrap().push(e);
                        clock2.advance(Duration::from_secs(o["d"].as_u64().unwrap()));
                    }
                    other => panic!("harness: unknown op {}", other),
                }
                }));
                if outcome.is_err() {
                    // a panic inside the library is data: record it and stop this thread
                    log2.lock().unwrap_or_else(|e| e.into_inner())
                        .push(json!({"ev": "Panic", "t": t + 1, "id": opid, "msg": crate::last_panic(), "during": op}));
                    break;
                }
                log2.lock().unwrap().push(json!({"ev": "Ret", "t": t + 1, "id": opid, "r": r, "now": tick()}));
                rets2.fetch_add(1, std::sync::atomic::Ordering::SeqCst);
            }
            mini_moka::verif::set_point_handler(None);
            let (m, cv) = &*sh2;
            m.lock().unwrap().st[t] = St::Finished;
            cv.notify_all();
        }));
    }

    // the controller
    let (m, cv) = &*sh;
    // "budget": the number of operations the other threads may complete during ONE maintenance run
    // (counted while everything is parked); reported as a MaintRun event
    let budget = b.get("budget").and_then(|x| x.as_u64());
    let mut run_base = 0usize;
    let mut max_run_others = 0usize;
    let wait_quiescent = |deadline: Duration| -> Option<Vec<St>> {
        let start = Instant::now();
        let mut g = m.lock().unwrap();
        loop {
            if g.st.iter().all(|s| *s != St::Running) {
                return Some(g.st.clone());
            }
            let left = deadline.checked_sub(start.elapsed())?;
            let (g2, to) = cv.wait_timeout(g, left).unwrap();
            g = g2;
            if to.timed_out() && !g.st.iter().all(|s| *s != St::Running) {
                return None;
            }
        }
    };
    let mut in_maint: Option<usize> = None;
    let mut steps = 0usize;
    let mut mismatch = None;
    let mut abandoned = false;
    let mut rng = seed.map(Rng::new);
    let enabled = |st: &Vec<St>, in_maint: Option<usize>| -> Vec<usize> {
        (0..st.len())
            .filter(|t| match &st[*t] {
                St::Parked(tag) => !(*tag == "sync.lock" && in_maint.is_some() && in_maint != Some(*t)),
                _ => false,
            })
            .collect()
    };
    let mut si = 0usize;
    let mut checked_last = false;
    // "starve_maint": keep the thread that runs maintenance parked for as long as any other
    // thread can still make progress (fills the write channel to its bound)
    let starve = b.get("policy").and_then(|x| x.as_str()) == Some("starve_maint");
    let measure = b.get("overshoot").and_then(|x| x.as_bool()).unwrap_or(false);
    let mut max_count = 0usize;
    let mut spin: Vec<u32> = vec![0; n];
    let mut last_grant: Vec<usize> = vec![0; n];
    loop {
        let st = match wait_quiescent(Duration::from_secs(20)) {
            Some(s) => s,
            None => {
                abandoned = true;
                break;
            }
        };
        if in_maint.is_some() {
            max_run_others = max_run_others.max(rets.load(std::sync::atomic::Ordering::SeqCst) - run_base);
        }
        // leaving maintenance: the thread parked outside it again, or finished
        if let Some(t) = in_maint {
            match &st[t] {
                St::Parked(tag) if is_maint(tag) || *tag == "sync.lock" || *tag == "key.hash" => {}
                _ => in_maint = None,
            }
        }
        if si == sched.len() && !checked_last {
            checked_last = true;
            if let Some(last) = b.get("last") {
                let pcs: Vec<Value> = st
                    .iter()
                    .map(|s| match s {
                        St::Parked(tag) => json!(tag),
                        St::Finished => json!("done"),
                        St::Running => json!("?"),
                    })
                    .collect();
                let mut res: Vec<(u32, Value)> = Vec::new();
                cache.verif_visit_entries(|k, v, meta| {
                    let tk = |t: Option<std::time::Instant>| t.map(|t| t.duration_since(base).as_secs() as i64).unwrap_or(-1);
                    res.push((k.id, json!({"k": k.id, "v": v.id, "w": meta.weight, "tw": if cfg.weigher { v.w } else { 1 }, "adm": meta.admitted, "dirty": meta.dirty,
                        "la": tk(meta.last_accessed), "lm": tk(meta.last_modified)})));
                });
                res.sort_by_key(|x| x.0);
                let (rl, wl) = cache.verif_channel_lens();
                let obs = json!({"pcs": pcs, "res": res.into_iter().map(|x| x.1).collect::<Vec<_>>(), "rlen": rl, "wlen": wl});
                if let Err(e) = crate::subset_match(last, &obs, "") {
                    mismatch = Some(e);
                }
            }
        }
        if measure {
            // every thread is parked: the count is exact
            max_count = max_count.max(cache.iter().count());
        }
        let en = enabled(&st, in_maint);
        if en.is_empty() {
            if st.iter().all(|s| *s == St::Finished) {
                break;
            }
            // some thread is unfinished and none can move: a deadlock at switch-point level
            log.lock().unwrap().push(json!({"ev": "Timeout", "what": "no runnable thread", "st": format!("{:?}", st)}));
            abandoned = true;
            break;
        }
        let t = if si < sched.len() {
            let t = sched[si];
            si += 1;
            if !en.contains(&t) {
                mismatch = Some(format!("schedule step {} names thread {} which is not enabled ({:?})", si, t + 1, st));
                en[0]
            } else {
                t
            }
        } else if starve {
            // threads outside maintenance that are not spinning on a full channel go first
            let outside: Vec<usize> = en
                .iter()
                .cloned()
                .filter(|t| match &st[*t] {
                    St::Parked(tag) => !is_maint(tag) && *tag != "sync.lock" && spin[*t] < 6,
                    _ => false,
                })
                .collect();
            let pick = if outside.is_empty() {
                for x in spin.iter_mut() {
                    *x = 0;
                }
                // everybody else waits for room in the channel: let maintenance proceed
                en.iter()
                    .cloned()
                    .find(|t| matches!(&st[*t], St::Parked(tag) if is_maint(tag) || *tag == "sync.lock"))
                    .unwrap_or(en[0])
            } else if let Some(r) = rng.as_mut() {
                *r.pick(&outside)
            } else {
                outside[0]
            };
            if let St::Parked(tag) = &st[pick] {
                if *tag == "hk.w" || *tag == "send.w" {
                    spin[pick] += 1;
                } else {
                    spin[pick] = 0;
                }
            }
            pick
        } else if let Some(r) = rng.as_mut() {
            *r.pick(&en)
        } else {
            // fair continuation (the model assumes weak fairness per thread): the enabled thread
            // that was granted longest ago; a writer retrying on a full queue cannot starve the
            // thread whose maintenance run would make room
            *en.iter().min_by_key(|t| last_grant[**t]).unwrap()
        };
        last_grant[t] = steps + 1;
        if let St::Parked(tag) = &st[t] {
            if *tag == "sync.lock" {
                in_maint = Some(t);
                run_base = rets.load(std::sync::atomic::Ordering::SeqCst);
            } else if *tag == "m.end" && in_maint == Some(t) {
                // this step publishes the counters and releases the mutex: the thread's next
                // park is outside maintenance even if its tag is sync.lock again (a following sync())
                in_maint = None;
            }
        }
        steps += 1;
        if steps > 100_000 {
            log.lock().unwrap().push(json!({"ev": "Timeout", "what": "step budget exceeded (livelock)"}));
            abandoned = true;
            break;
        }
        let mut g = m.lock().unwrap();
        g.grant[t] = true;
        g.st[t] = St::Running;
        cv.notify_all();
    }
    if let Some(bud) = budget {
        log.lock().unwrap().push(json!({"ev": "MaintRun", "max_others": max_run_others, "budget": bud}));
    }
    let mut hang = false;
    if abandoned {
        // let everything run freely; a hang is when the threads still do not finish
        {
            let mut g = m.lock().unwrap();
            g.free_run = true;
            cv.notify_all();
        }
        let start = Instant::now();
        loop {
            if handles.iter().all(|h| h.is_finished()) {
                break;
            }
            if start.elapsed() > Duration::from_secs(30) {
                hang = true;
                break;
            }
            std::thread::sleep(Duration::from_millis(20));
        }
        if hang {
            log.lock().unwrap().push(json!({"ev": "Timeout", "what": "threads did not finish after release"}));
        }
    }
    if !hang {
        for h in handles {
            let _ = h.join();
        }
        // after the threads have stopped: maintenance to quiescence and the final observations
        // (on a helper thread: a maintenance run that never returns must not take the harness with it)
        let (tx, rx) = std::sync::mpsc::channel();
        let c2 = cache.clone();
        std::thread::spawn(move || {
            let r = std::panic::catch_unwind(std::panic::AssertUnwindSafe(|| {
                c2.sync();
                c2.sync();
            }));
            // give the handle back before reporting: the controller's handle must be the last one
            // when it drops the cache (the live-object counters are per run)
            drop(c2);
            let _ = tx.send(r.is_ok());
        });
        let fin: Result<(), ()> = match rx.recv_timeout(Duration::from_secs(30)) {
            Ok(true) => Ok(()),
            Ok(false) => Err(()),
            Err(_) => {
                log.lock().unwrap().push(json!({"ev": "Timeout", "what": "the final sync() did not return"}));
                let events = std::mem::take(&mut *log.lock().unwrap());
                std::mem::forget(cache);
                return RunOut { events, mismatch, abandoned, hang: true, steps };
            }
        };
        if fin.is_err() {
            log.lock().unwrap().push(json!({"ev": "Panic", "msg": crate::last_panic(), "during": "final sync"}));
            let events = std::mem::take(&mut *log.lock().unwrap());
            std::mem::forget(cache);
            return RunOut { events, mismatch, abandoned, hang, steps };
        }
        if measure {
            log.lock().unwrap().push(json!({"ev": "Overshoot", "count": max_count, "cap": cfg.cap, "threads": n,
                "wlog": 384, "exact": true}));
        }
        // the epilogue runs library code as well: a panic in it is an event, not the end of the harness
        let epi = std::panic::catch_unwind(std::panic::AssertUnwindSafe(|| {
            let mut w = World::adopt(cfg.clone(), AnyCache::S(cache), clock.clone(), base);
            let mut ev = json!({"ev": "Sync", "now": w.now()});
            ev["snap"] = w.snapshot();
            ev["mx"] = json!([]);
            let items = w.exec(&json!({"op": "Iter"}))["items"].clone();
            log.lock().unwrap().push(ev);
            log.lock().unwrap().push(json!({"ev": "Final", "items": items.clone()}));
            // the probe of C03 (b): the smallest key that is not resident, weighing exactly the room
            // that the values held leave, must get in and displace nobody
            {
                let res = ev_res(&w.snapshot());
                let held: i64 = res.iter().map(|r| r.1).sum();
                let room = if cfg.cap < 0 { 1 } else { cfg.cap - held };
                let free = (1..=cfg.nkeys as i64).find(|k| !res.iter().any(|r| r.0 == *k));
                if let (Some(k), true) = (free, room >= 1) {
                    let wgt = if cfg.weigher { room } else { 1 };
                    w.exec(&json!({"op": "Insert", "k": k, "v": 800 + k, "w": wgt}));
                    w.exec(&json!({"op": "Sync"}));
                    let after = w.exec(&json!({"op": "Iter"}))["items"].clone();
                    log.lock().unwrap().push(json!({"ev": "Probe", "k": k, "v": 800 + k, "w": wgt, "before": items, "after": after}));
                }
            }
            // the refill of C03: invalidate everything, then max_capacity fresh unit-weight entries
            let want = if cfg.cap < 0 { cfg.nkeys as i64 } else { cfg.cap.min(cfg.nkeys as i64) };
            for k in 1..=cfg.nkeys {
                w.exec(&json!({"op": "Invalidate", "k": k}));
            }
            w.exec(&json!({"op": "Sync"}));
            w.exec(&json!({"op": "Advance", "d": 3}));
            let mut kept = 0;
            for k in 1..=want {
                w.exec(&json!({"op": "Insert", "k": k, "v": 900 + k, "w": 1}));
                w.exec(&json!({"op": "Sync"}));
            }
            for k in 1..=want {
                if w.exec(&json!({"op": "Get", "k": k}))["r"] == json!(900 + k) {
                    kept += 1;
                }
            }
            log.lock().unwrap().push(json!({"ev": "Refill", "want": want, "kept": kept}));
            drop(w);
            use std::sync::atomic::Ordering::SeqCst;
            log.lock().unwrap().push(json!({"ev": "End", "lk": LIVE_KEYS.load(SeqCst), "lv": LIVE_VALS.load(SeqCst),
                "dd": DOUBLE_DROPS.load(SeqCst), "km": KEYS_MADE.load(SeqCst), "kd": KEYS_DROPPED.load(SeqCst),
                "vm": VALS_MADE.load(SeqCst), "vd": VALS_DROPPED.load(SeqCst)}));
        }));
        if epi.is_err() {
            log.lock().unwrap().push(json!({"ev": "Panic", "msg": crate::last_panic(), "during": "epilogue"}));
        }
    }
    let events = std::mem::take(&mut *log.lock().unwrap());
    RunOut {
        events,
        mismatch,
        abandoned,
        hang,
        steps,
    }
}

/// (key, weight of the value held) of every resident of a snapshot
fn ev_res(snap: &Value) -> Vec<(i64, i64)> {
    snap["res"]
        .as_array()
        .map(|a| a.iter().map(|r| (r["k"].as_i64().unwrap_or(0), r["tw"].as_i64().unwrap_or(0))).collect())
        .unwrap_or_default()
}

pub fn cmd_sched(args: &[String]) {
    // sched <behaviours> <trace-out> [--only-bad]
    let f = std::io::BufReader::new(std::fs::File::open(&args[0]).unwrap());
    let mut out = std::io::BufWriter::new(
        std::fs::OpenOptions::new().create(true).append(true).open(&args[1]).unwrap(),
    );
    let only_bad = args.iter().any(|a| a == "--only-bad");
    let (mut n, mut events, mut steps) = (0u64, 0usize, 0usize);
    let mut mism: Vec<Value> = Vec::new();
    let mut abandoned = 0;
    let mut hangs = 0;
    for (idx, line) in f.lines().enumerate() {
        let line = line.unwrap();
        if line.trim().is_empty() {
            continue;
        }
        let b: Value = serde_json::from_str(&line).unwrap();
        let id = b.get("id").and_then(|x| x.as_u64()).unwrap_or(idx as u64);
        let r = run_program(&b, id);
        n += 1;
        events += r.events.len();
        steps += r.steps;
        if r.abandoned {
            abandoned += 1;
        }
        if r.hang {
            hangs += 1;
        }
        let bad = r.mismatch.is_some() || r.abandoned || r.hang;
        if let Some(m) = &r.mismatch {
            if mism.len() < 30 {
                mism.push(json!({"id": id, "what": m}));
            }
        }
        if !only_bad || bad {
            for e in &r.events {
                writeln!(out, "{}", e).unwrap();
            }
        }
        if r.hang {
            // threads are stuck: nothing more can be run in this process
            break;
        }
    }
    out.flush().unwrap();
    println!(
        "{}",
        json!({"behaviours": n, "events": events, "steps": steps, "mismatches": mism, "abandoned": abandoned, "hangs": hangs})
    );
    if hangs > 0 {
        std::process::exit(3);
    }
}
