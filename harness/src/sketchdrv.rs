//! Drivers for the popularity estimator through the facade (C14, C08).

use crate::types::{splitmix, Rng};
use mini_moka::verif::Sketch;
use serde_json::{json, Value};
use std::io::{BufRead, Write};
use std::panic::{catch_unwind, AssertUnwindSafe};

fn pos_json(sk: &Sketch, h: u64) -> Value {
    let p = sk.positions(h);
    Value::Array(p.iter().map(|(s, c)| json!([s, c])).collect())
}

/// Runs one stream; `hashes` is the universe, `incs` the 1-based indices to increment.
fn run_stream(id: u64, cap: u32, hashes: &[u64], incs: &[usize], out: &mut dyn Write) -> Option<Value> {
    let mut sk = Sketch::new();
    sk.ensure_capacity(cap);
    let st = sk.state();
    let pos: Vec<Value> = hashes.iter().map(|h| pos_json(&sk, *h)).collect();
    writeln!(out, "{}", json!({"ev": "SkConfig", "id": id, "cap": cap, "tlen": st.table_len, "sample": st.sample_size, "pos": pos})).unwrap();
    let mut last = None;
    let mut resets = 0;
    for g in incs {
        let h = hashes[*g - 1];
        let r = catch_unwind(AssertUnwindSafe(|| sk.increment(h)));
        if r.is_err() {
            let e = json!({"ev": "Panic", "msg": crate::last_panic(), "during": "SkInc", "g": g});
            writeln!(out, "{}", e).unwrap();
            return Some(e);
        }
        let st = sk.state();
        let est: Vec<u8> = hashes.iter().map(|x| sk.frequency(*x)).collect();
        let e = json!({"ev": "SkInc", "g": g, "est": est, "aged": st.resets != resets, "size": st.size});
        resets = st.resets;
        writeln!(out, "{}", e).unwrap();
        last = Some(e);
    }
    last
}

/// Finds a 64-bit hash whose counters are exactly `want` in a sketch of capacity `cap`.
fn concretise(cap: u32, want: &Value, rng: &mut Rng) -> Option<u64> {
    let mut sk = Sketch::new();
    sk.ensure_capacity(cap);
    for _ in 0..2_000_000 {
        let h = splitmix(rng.next());
        if &pos_json(&sk, h) == want {
            return Some(h);
        }
    }
    None
}

pub fn cmd_sketch(args: &[String]) {
    // sketch replay <behaviours> <trace-out>   |   sketch random <seed> <count> <len> <trace-out>
    let mut rng = Rng::new(12345);
    if args[0] == "replay" {
        let f = std::io::BufReader::new(std::fs::File::open(&args[1]).unwrap());
        let mut out = std::io::BufWriter::new(std::fs::File::create(&args[2]).unwrap());
        let mut n = 0u64;
        let mut events = 0usize;
        let mut mism: Vec<Value> = Vec::new();
        let mut cache: std::collections::HashMap<String, u64> = std::collections::HashMap::new();
        for (idx, line) in f.lines().enumerate() {
            let b: Value = serde_json::from_str(&line.unwrap()).unwrap();
            let cap = b["cap"].as_u64().unwrap() as u32;
            let mut hashes = Vec::new();
            for p in b["pos"].as_array().unwrap() {
                let key = format!("{}:{}", cap, p);
                let h = match cache.get(&key) {
                    Some(h) => *h,
                    None => {
                        let h = concretise(cap, p, &mut rng).expect("no hash with the wanted counters");
                        cache.insert(key, h);
                        h
                    }
                };
                hashes.push(h);
            }
            let incs: Vec<usize> = b["incs"].as_array().unwrap().iter().map(|x| x.as_u64().unwrap() as usize).collect();
            let mut buf: Vec<u8> = Vec::new();
            let last = run_stream(idx as u64, cap, &hashes, &incs, &mut buf);
            events += incs.len();
            n += 1;
            let ok = match (&last, b.get("last")) {
                (Some(o), Some(e)) => crate::subset_match(e, o, "").is_ok(),
                _ => true,
            };
            if !ok {
                out.write_all(&buf).unwrap();
                if mism.len() < 20 {
                    mism.push(json!({"line": idx}));
                }
            }
        }
        println!("{}", json!({"behaviours": n, "events": events, "mismatches": mism}));
    } else {
        let seed: u64 = args[1].parse().unwrap();
        let count: u64 = args[2].parse().unwrap();
        let len: usize = args[3].parse().unwrap();
        let mut out = std::io::BufWriter::new(std::fs::File::create(&args[4]).unwrap());
        let mut rng = Rng::new(seed);
        let caps: [u32; 12] = [0, 1, 2, 3, 5, 8, 127, 128, 129, 1000, 65537, 1 << 20];
        let mut events = 0;
        for id in 0..count {
            let cap = caps[(id as usize) % caps.len()];
            let u = 3 + rng.below(10) as usize;
            let hashes: Vec<u64> = (0..u).map(|_| splitmix(rng.next())).collect();
            // skewed stream: low indices are hot
            let incs: Vec<usize> = (0..len)
                .map(|_| {
                    let a = rng.below(u as u64) as usize;
                    let b = rng.below(u as u64) as usize;
                    1 + a.min(b)
                })
                .collect();
            run_stream(id, cap, &hashes, &incs, &mut out);
            events += len;
        }
        println!("{}", json!({"behaviours": count, "events": events}));
    }
}
