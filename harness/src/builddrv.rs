//! Driver for the builders, `Cache::new` and `policy()` (C17).

use crate::cachew::dur_of_idx;
use mini_moka::sync::ConcurrentCacheExt;
use mini_moka::verif::MockClock;
use serde_json::{json, Value};
use std::io::{BufRead, Write};
use std::panic::{catch_unwind, AssertUnwindSafe};
use std::time::Duration;

fn cap_of_idx(i: i64) -> Option<u64> {
    match i {
        -1 => None,
        0 => Some(0),
        1 => Some(1),
        2 => Some(2),
        3 => Some(1u64 << 32),
        4 => Some(u64::MAX),
        _ => panic!("harness: bad capacity index"),
    }
}
fn idx_of_cap(c: Option<u64>) -> i64 {
    match c {
        None => -1,
        Some(0) => 0,
        Some(1) => 1,
        Some(2) => 2,
        Some(x) if x == 1u64 << 32 => 3,
        Some(u64::MAX) => 4,
        _ => -2,
    }
}
fn idx_of_dur(d: Option<Duration>) -> i64 {
    match d {
        None => -1,
        Some(d) => (0..6).find(|i| dur_of_idx(*i) == d).unwrap_or(-2),
    }
}
fn init_of_idx(i: i64) -> Option<usize> {
    match i {
        -1 => None,
        0 => Some(0),
        1 => Some(1),
        _ => Some(1000),
    }
}

#[derive(Clone)]
struct C {
    kind: String,
    via: String,
    cap: i64,
    ttl: i64,
    tti: i64,
    weigher: bool,
    init: i64,
}

type RS = std::collections::hash_map::RandomState;
enum Built {
    U(mini_moka::unsync::Cache<u32, u32, RS>),
    S(mini_moka::sync::Cache<u32, u32, RS>),
}

fn weigh(_k: &u32, v: &u32) -> u32 {
    1 + ((v / 10) % 2)
}

fn build(c: &C) -> Built {
    if c.kind == "unsync" {
        if c.via == "new" {
            return Built::U(mini_moka::unsync::Cache::new(cap_of_idx(c.cap).unwrap()));
        }
        let mut b = mini_moka::unsync::Cache::builder();
        if let Some(n) = cap_of_idx(c.cap) {
            b = b.max_capacity(n);
        }
        if let Some(n) = init_of_idx(c.init) {
            b = b.initial_capacity(n);
        }
        if c.weigher {
            b = b.weigher(weigh);
        }
        if c.ttl >= 0 {
            b = b.time_to_live(dur_of_idx(c.ttl));
        }
        if c.tti >= 0 {
            b = b.time_to_idle(dur_of_idx(c.tti));
        }
        if c.via == "with_hasher" {
            return Built::U(b.build_with_hasher(std::collections::hash_map::RandomState::new()));
        }
        Built::U(b.build())
    } else {
        if c.via == "new" {
            return Built::S(mini_moka::sync::Cache::new(cap_of_idx(c.cap).unwrap()));
        }
        let mut b = mini_moka::sync::Cache::builder();
        if let Some(n) = cap_of_idx(c.cap) {
            b = b.max_capacity(n);
        }
        if let Some(n) = init_of_idx(c.init) {
            b = b.initial_capacity(n);
        }
        if c.weigher {
            b = b.weigher(weigh);
        }
        if c.ttl >= 0 {
            b = b.time_to_live(dur_of_idx(c.ttl));
        }
        if c.tti >= 0 {
            b = b.time_to_idle(dur_of_idx(c.tti));
        }
        if c.via == "with_hasher" {
            return Built::S(b.build_with_hasher(std::collections::hash_map::RandomState::new()));
        }
        Built::S(b.build())
    }
}

fn policy_json(b: &Built) -> Value {
    let p = match b {
        Built::U(c) => c.policy(),
        Built::S(c) => c.policy(),
    };
    json!({"cap": idx_of_cap(p.max_capacity()), "ttl": idx_of_dur(p.time_to_live()), "tti": idx_of_dur(p.time_to_idle())})
}

/// The fixed follow-up history (no `get` before the last insert, so no admission decision depends
/// on the hasher).  Its second half tells time_to_live from time_to_idle: half a second, a read
/// of key 1, another half second, then `contains_key` of 1 and 3.
fn follow(b: &mut Built, dead: bool) -> Value {
    let clock = MockClock::new();
    let hide = |x: u64| if dead { -1 } else { x as i64 };
    match b {
        Built::U(c) => {
            c.verif_set_clock(&clock);
            for k in 1..=3u32 {
                c.insert(k, k * 10);
            }
            let (c1, c2, c3) = (c.contains_key(&1), c.contains_key(&2), c.contains_key(&3));
            let (ec, ws) = (c.entry_count(), c.weighted_size());
            c.invalidate(&2);
            let c2a = c.contains_key(&2);
            let eca = c.entry_count();
            clock.advance(Duration::from_millis(500));
            let g1 = c.get(&1).map(|v| *v as i64).unwrap_or(-1);
            clock.advance(Duration::from_millis(500));
            let (t1, t3) = (c.contains_key(&1), c.contains_key(&3));
            json!({"c1": c1, "c2": c2, "c3": c3, "ec": hide(ec), "ws": hide(ws), "c2after": c2a, "ecafter": hide(eca),
                "g1": g1, "t1": t1, "t3": t3})
        }
        Built::S(c) => {
            c.verif_set_clock(&clock);
            for k in 1..=3u32 {
                c.insert(k, k * 10);
            }
            c.sync();
            let (c1, c2, c3) = (c.contains_key(&1), c.contains_key(&2), c.contains_key(&3));
            let (ec, ws) = (c.entry_count(), c.weighted_size());
            c.invalidate(&2);
            c.sync();
            let c2a = c.contains_key(&2);
            let eca = c.entry_count();
            clock.advance(Duration::from_millis(500));
            let g1 = c.get(&1).map(|v| v as i64).unwrap_or(-1);
            c.sync();
            clock.advance(Duration::from_millis(500));
            let (t1, t3) = (c.contains_key(&1), c.contains_key(&3));
            json!({"c1": c1, "c2": c2, "c3": c3, "ec": hide(ec), "ws": hide(ws), "c2after": c2a, "ecafter": hide(eca),
                "g1": g1, "t1": t1, "t3": t3})
        }
    }
}

fn run_one(c: &C) -> (bool, Value, Option<Value>) {
    let r = catch_unwind(AssertUnwindSafe(|| build(c)));
    match r {
        Err(_) => (true, json!({"cap": -1, "ttl": -1, "tti": -1}), None),
        Ok(mut b) => {
            let p = policy_json(&b);
            let dead = c.ttl == 0 || c.tti == 0;
            let f = catch_unwind(AssertUnwindSafe(|| follow(&mut b, dead)));
            match f {
                Ok(f) => (false, p, Some(f)),
                Err(_) => (false, p, Some(json!({"panic": crate::last_panic()}))),
            }
        }
    }
}

pub fn cmd_build(args: &[String]) {
    // build <behaviours> <trace-out>
    let f = std::io::BufReader::new(std::fs::File::open(&args[0]).unwrap());
    let mut out = std::io::BufWriter::new(std::fs::File::create(&args[1]).unwrap());
    let (mut n, mut events, mut mism) = (0u64, 0usize, 0usize);
    for (idx, line) in f.lines().enumerate() {
        let b: Value = serde_json::from_str(&line.unwrap()).unwrap();
        let x = &b["cfg"];
        let c = C {
            kind: x["kind"].as_str().unwrap().into(),
            via: x["via"].as_str().unwrap().into(),
            cap: x["cap"].as_i64().unwrap(),
            ttl: x["ttl"].as_i64().unwrap(),
            tti: x["tti"].as_i64().unwrap(),
            weigher: x["weigher"].as_bool().unwrap(),
            init: x["init"].as_i64().unwrap(),
        };
        let (panicked, policy, fol) = run_one(&c);
        let be = json!({"ev": "Build", "id": idx, "kind": c.kind, "via": c.via, "cap": c.cap, "ttl": c.ttl, "tti": c.tti,
            "weigher": c.weigher, "init": c.init, "panicked": panicked, "policy": policy,
            "msg": if panicked { crate::last_panic() } else { String::new() }});
        if crate::subset_match(&b["build"], &be, "").is_err() {
            mism += 1;
        }
        writeln!(out, "{}", be).unwrap();
        events += 1;
        if let Some(f) = fol {
            let fe = json!({"ev": "Follow", "obs": f});
            if b["follow"].get("none").is_none() && crate::subset_match(&b["follow"], &fe, "").is_err() {
                mism += 1;
            }
            writeln!(out, "{}", fe).unwrap();
            events += 1;
        }
        // equivalent configurations
        let mut twins: Vec<(&str, C)> = Vec::new();
        if c.via == "builder" {
            let mut t = c.clone();
            t.init = if c.init == -1 { 2 } else { -1 };
            twins.push(("other_initial_capacity", t));
            let mut t = c.clone();
            t.via = "with_hasher".into();
            twins.push(("with_hasher", t));
            if c.cap != -1 && c.ttl == -1 && c.tti == -1 && !c.weigher {
                let mut t = c.clone();
                t.via = "new".into();
                t.init = -1;
                twins.push(("new_form", t));
            }
        } else {
            let mut t = c.clone();
            t.via = "builder".into();
            twins.push(("builder_form", t));
        }
        for (which, t) in twins {
            let (tp, pol, tf) = run_one(&t);
            writeln!(out, "{}", json!({"ev": "Twin", "which": which, "panicked": tp, "policy": pol,
                "obs": tf.unwrap_or(json!({}))})).unwrap();
            events += 1;
        }
        n += 1;
    }
    println!("{}", json!({"behaviours": n, "events": events, "mismatches": mism}));
}
