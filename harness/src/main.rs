mod builddrv;
mod cachew;
mod dequedrv;
mod freerun;
mod gen;
mod sched;
mod sketchdrv;
mod types;

use cachew::*;
use serde_json::{json, Value};
use std::io::{BufRead, BufReader, BufWriter, Write};
use std::panic::{catch_unwind, AssertUnwindSafe};
use std::sync::Mutex;

static LAST_PANIC: Mutex<String> = Mutex::new(String::new());

pub fn last_panic() -> String {
    LAST_PANIC.lock().unwrap_or_else(|e| e.into_inner()).clone()
}

fn install_panic_hook() {
    std::panic::set_hook(Box::new(|info| {
        let msg = if let Some(s) = info.payload().downcast_ref::<&str>() {
            s.to_string()
        } else if let Some(s) = info.payload().downcast_ref::<String>() {
            s.clone()
        } else {
            "<non-string panic>".to_string()
        };
        let loc = info
            .location()
            .map(|l| format!("{}:{}", l.file(), l.line()))
            .unwrap_or_default();
        if std::env::var("VHARNESS_SHOW_PANICS").is_ok() {
            eprintln!("panic: {} @ {}", msg, loc);
        }
        *LAST_PANIC.lock().unwrap_or_else(|e| e.into_inner()) = format!("{} @ {}", msg, loc);
    }));
}

/// `exp` is matched structurally: every field present in `exp` must be present and
/// equal in `obs` (recursively); `obs` may carry more.
pub fn subset_match(exp: &Value, obs: &Value, path: &str) -> Result<(), String> {
    match (exp, obs) {
        (Value::Object(e), Value::Object(o)) => {
            for (k, ev) in e {
                match o.get(k) {
                    None => return Err(format!("{}.{} missing", path, k)),
                    Some(ov) => subset_match(ev, ov, &format!("{}.{}", path, k))?,
                }
            }
            Ok(())
        }
        (Value::Array(e), Value::Array(o)) => {
            if e.len() != o.len() {
                return Err(format!("{} length {} vs {}", path, e.len(), o.len()));
            }
            for (i, (ev, ov)) in e.iter().zip(o.iter()).enumerate() {
                subset_match(ev, ov, &format!("{}[{}]", path, i))?;
            }
            Ok(())
        }
        (Value::Number(a), Value::Number(b)) => {
            if a.as_i64() == b.as_i64() {
                Ok(())
            } else {
                Err(format!("{}: expected {} observed {}", path, a, b))
            }
        }
        (a, b) => {
            if a == b {
                Ok(())
            } else {
                Err(format!("{}: expected {} observed {}", path, a, b))
            }
        }
    }
}

pub struct RunResult {
    pub events: usize,
    pub panic: Option<String>,
    pub mismatch: Option<(usize, String)>,
}

/// Runs one behaviour `{cfg, ops, exp?}`; writes its trace to `out` if given.
fn run_behaviour(b: &Value, id: u64, mut out: Option<&mut dyn Write>, always_write: bool) -> (RunResult, Vec<Value>) {
    let cfg = Cfg::from_json(&b["cfg"]);
    let ops = b["ops"].as_array().cloned().unwrap_or_default();
    let exp = b.get("exp").and_then(|e| e.as_array()).cloned();
    let last = b.get("last").cloned();
    types::reset_counters();
    let mut trace: Vec<Value> = Vec::new();
    let mut cj = cfg.to_json();
    cj["ev"] = json!("Config");
    cj["id"] = json!(id);
    trace.push(cj);
    let mut res = RunResult {
        events: 0,
        panic: None,
        mismatch: None,
    };
    let built = catch_unwind(AssertUnwindSafe(|| World::new(cfg.clone())));
    let mut world = match built {
        Ok(w) => w,
        Err(_) => {
            let msg = LAST_PANIC.lock().unwrap().clone();
            trace.push(json!({"ev": "Panic", "msg": msg, "during": "Build"}));
            res.panic = Some(msg);
            if let Some(o) = out.as_mut() {
                for e in &trace {
                    writeln!(o, "{}", e).unwrap();
                }
            }
            return (res, trace);
        }
    };
    for (i, op) in ops.iter().enumerate() {
        let r = catch_unwind(AssertUnwindSafe(|| {
            let mut ev = world.exec(op);
            let snap = world.snapshot();
            ev["snap"] = snap;
            ev
        }));
        match r {
            Ok(mut ev) => {
                ev["mx"] = Value::Array(world.take_mx());
                if let Some(last) = &last {
                    if i + 1 == ops.len() {
                        if let Err(m) = subset_match(last, &ev, "") {
                            res.mismatch = Some((i, m));
                        }
                    }
                }
                if let Some(exp) = &exp {
                    if res.mismatch.is_none() {
                        if let Some(e) = exp.get(i) {
                            if let Err(m) = subset_match(e, &ev, "") {
                                res.mismatch = Some((i, m));
                            }
                        }
                    }
                }
                trace.push(ev);
                res.events += 1;
            }
            Err(_) => {
                let msg = LAST_PANIC.lock().unwrap_or_else(|e| e.into_inner()).clone();
                trace.push(json!({"ev": "Panic", "msg": msg, "during": op["op"], "now": 0}));
                res.panic = Some(msg);
                // The cache may be in an arbitrary state: leak it rather than run its destructor.
                std::mem::forget(world);
                if let Some(o) = out.as_mut() {
                    for e in &trace {
                        writeln!(o, "{}", e).unwrap();
                    }
                }
                return (res, trace);
            }
        }
    }
    // End of behaviour: drop the cache (if still there) and report what is still alive.
    let dropped = catch_unwind(AssertUnwindSafe(|| {
        drop(world);
    }));
    if dropped.is_err() {
        let msg = LAST_PANIC.lock().unwrap_or_else(|e| e.into_inner()).clone();
        trace.push(json!({"ev": "Panic", "msg": msg, "during": "Drop", "now": 0}));
        res.panic = Some(msg);
    } else {
        use std::sync::atomic::Ordering::SeqCst;
        trace.push(json!({"ev": "End",
            "lk": types::LIVE_KEYS.load(SeqCst), "lv": types::LIVE_VALS.load(SeqCst),
            "dd": types::DOUBLE_DROPS.load(SeqCst),
            "km": types::KEYS_MADE.load(SeqCst), "kd": types::KEYS_DROPPED.load(SeqCst),
            "vm": types::VALS_MADE.load(SeqCst), "vd": types::VALS_DROPPED.load(SeqCst)}));
    }
    if let Some(o) = out.as_mut() {
        if always_write || res.mismatch.is_some() || res.panic.is_some() {
            for e in &trace {
                writeln!(o, "{}", e).unwrap();
            }
        }
    }
    (res, trace)
}

fn cmd_replay(args: &[String]) {
    // replay <behaviours.ndjson> <trace-out.ndjson> [--only-bad] [--progress <file>] [--skip N]
    let inp = &args[0];
    let outp = &args[1];
    let only_bad = args.iter().any(|a| a == "--only-bad");
    let mut progress: Option<String> = None;
    let mut skip = 0u64;
    let mut i = 2;
    while i < args.len() {
        if args[i] == "--progress" {
            progress = Some(args[i + 1].clone());
            i += 1;
        } else if args[i] == "--skip" {
            skip = args[i + 1].parse().unwrap();
            i += 1;
        }
        i += 1;
    }
    let f = BufReader::new(std::fs::File::open(inp).expect("open behaviours"));
    let mut out = BufWriter::new(
        std::fs::OpenOptions::new()
            .create(true)
            .append(true)
            .open(outp)
            .expect("open trace out"),
    );
    let mut n = 0u64;
    let mut events = 0usize;
    let mut mism: Vec<Value> = Vec::new();
    let mut panics: Vec<Value> = Vec::new();
    // watchdog: a behaviour that does not finish (a call that never returns) ends the process with
    // status 4; the orchestrator records a Timeout event for the behaviour named in the progress
    // file and goes on with the next one
    let beat = std::sync::Arc::new(std::sync::atomic::AtomicU64::new(0));
    {
        let beat = beat.clone();
        let limit: u64 = std::env::var("VERIF_OP_TIMEOUT").ok().and_then(|x| x.parse().ok()).unwrap_or(60);
        std::thread::spawn(move || {
            let mut last = beat.load(std::sync::atomic::Ordering::SeqCst);
            let mut since = std::time::Instant::now();
            loop {
                std::thread::sleep(std::time::Duration::from_millis(500));
                let cur = beat.load(std::sync::atomic::Ordering::SeqCst);
                if cur != last {
                    last = cur;
                    since = std::time::Instant::now();
                } else if since.elapsed().as_secs() >= limit {
                    std::process::exit(4);
                }
            }
        });
    }
    for (idx, line) in f.lines().enumerate() {
        let line = line.unwrap();
        if line.trim().is_empty() {
            continue;
        }
        if (idx as u64) < skip {
            continue;
        }
        let b: Value = serde_json::from_str(&line).expect("behaviour json");
        let id = b.get("id").and_then(|x| x.as_u64()).unwrap_or(idx as u64);
        if let Some(p) = &progress {
            out.flush().unwrap();
            std::fs::write(p, format!("{}", idx)).unwrap();
        }
        beat.fetch_add(1, std::sync::atomic::Ordering::SeqCst);
        let (r, _) = run_behaviour(&b, id, Some(&mut out), !only_bad);
        beat.fetch_add(1, std::sync::atomic::Ordering::SeqCst);
        n += 1;
        events += r.events;
        if let Some((i, m)) = r.mismatch {
            if mism.len() < 50 {
                mism.push(json!({"id": id, "line": idx, "at": i, "what": m}));
            } else {
                mism.push(json!({"id": id, "line": idx}));
            }
        }
        if let Some(m) = r.panic {
            panics.push(json!({"id": id, "line": idx, "msg": m}));
        }
    }
    out.flush().unwrap();
    println!(
        "{}",
        json!({"behaviours": n, "events": events, "mismatches": mism, "panics": panics})
    );
}

fn main() {
    install_panic_hook();
    let args: Vec<String> = std::env::args().collect();
    if args.len() < 2 {
        eprintln!("usage: vharness <replay|gen|...> ...");
        std::process::exit(2);
    }
    match args[1].as_str() {
        "replay" => cmd_replay(&args[2..]),
        "gen" => gen::cmd_gen(&args[2..]),
        "sketch" => sketchdrv::cmd_sketch(&args[2..]),
        "deque" => dequedrv::cmd_deque(&args[2..]),
        "build" => builddrv::cmd_build(&args[2..]),
        "sched" => sched::cmd_sched(&args[2..]),
        "free" => freerun::cmd_free(&args[2..]),
        other => {
            eprintln!("unknown command {}", other);
            std::process::exit(2);
        }
    }
}
