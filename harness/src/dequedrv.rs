//! Drivers for the intrusive deque through the facade (C08, C11).

use crate::types::*;
use mini_moka::verif::Deque;
use serde_json::{json, Value};
use std::collections::HashMap;
use std::io::{BufRead, Write};
use std::panic::{catch_unwind, AssertUnwindSafe};
use std::sync::atomic::Ordering;

struct DW {
    d: Deque<Val>,
    addr_of: Vec<usize>, // id (1-based) -> address
    id_of: HashMap<usize, i64>,
}

impl DW {
    fn id(&self, a: usize) -> i64 {
        if a == 0 {
            0
        } else {
            *self.id_of.get(&a).unwrap_or(&-2)
        }
    }
    fn dump(&self) -> Value {
        let mut elems = Vec::new();
        let d = self.d.dump(|v| elems.push(v.id));
        let nodes: Vec<Value> = d
            .nodes
            .iter()
            .enumerate()
            .map(|(i, n)| json!({"id": self.id(n.addr), "prev": self.id(n.prev), "next": self.id(n.next), "elem": elems[i]}))
            .collect();
        let cur = match d.cursor {
            0 => 0,
            1 => -1,
            a => self.id(a),
        };
        json!({"head": self.id(d.head), "tail": self.id(d.tail), "len": d.len, "cur": cur, "nodes": nodes})
    }
}

fn run_ops(id: u64, ops: &[Value], out: &mut dyn Write) -> Option<Value> {
    reset_counters();
    writeln!(out, "{}", json!({"ev": "DqConfig", "id": id})).unwrap();
    let mut w = DW {
        d: Deque::new(),
        addr_of: Vec::new(),
        id_of: HashMap::new(),
    };
    let mut last = None;
    for o in ops {
        let op = o["op"].as_str().unwrap().to_string();
        let n = o.get("n").and_then(|x| x.as_u64()).unwrap_or(0) as usize;
        let r = catch_unwind(AssertUnwindSafe(|| -> i64 {
            match op.as_str() {
                "PushBack" => {
                    let e = o["e"].as_u64().unwrap() as u32;
                    let a = w.d.push_back(Val::new(e, 0));
                    w.addr_of.push(a);
                    let idn = w.addr_of.len() as i64;
                    // an address can be reused by the allocator after a node was freed
                    w.id_of.insert(a, idn);
                    idn
                }
                "PopFront" => {
                    let front = w.d.peek_front().map(|(a, _)| a);
                    let r = w.d.pop_front().map(|v| v.id as i64).unwrap_or(-1);
                    if let Some(a) = front {
                        w.id_of.remove(&a);
                    }
                    r
                }
                "MoveToBack" => {
                    unsafe { w.d.move_to_back(w.addr_of[n - 1]) };
                    0
                }
                "MoveFrontToBack" => {
                    w.d.move_front_to_back();
                    0
                }
                "UnlinkAndDrop" => {
                    let a = w.addr_of[n - 1];
                    unsafe { w.d.unlink_and_drop(a) };
                    w.id_of.remove(&a);
                    0
                }
                "IterNext" => w.d.iter_next().map(|v| v.id as i64).unwrap_or(-1),
                "Contains" => unsafe { w.d.contains(w.addr_of[n - 1]) as i64 },
                other => panic!("harness: unknown deque op {}", other),
            }
        }));
        match r {
            Ok(r) => {
                let mut e = json!({"ev": "Dq", "op": op, "r": r, "dump": w.dump(),
                    "lv": LIVE_VALS.load(Ordering::SeqCst), "dd": DOUBLE_DROPS.load(Ordering::SeqCst)});
                if n > 0 {
                    e["n"] = json!(n);
                }
                if let Some(x) = o.get("e") {
                    e["e"] = x.clone();
                }
                writeln!(out, "{}", e).unwrap();
                last = Some(e);
            }
            Err(_) => {
                let e = json!({"ev": "Panic", "msg": crate::last_panic(), "during": op});
                writeln!(out, "{}", e).unwrap();
                std::mem::forget(w);
                return Some(e);
            }
        }
    }
    drop(w);
    last
}

pub fn cmd_deque(args: &[String]) {
    // deque replay <behaviours> <trace-out> | deque random <seed> <count> <len> <maxalloc> <trace-out>
    if args[0] == "replay" {
        let f = std::io::BufReader::new(std::fs::File::open(&args[1]).unwrap());
        let mut out = std::io::BufWriter::new(std::fs::File::create(&args[2]).unwrap());
        let (mut n, mut events) = (0u64, 0usize);
        let mut mism: Vec<Value> = Vec::new();
        for (idx, line) in f.lines().enumerate() {
            let b: Value = serde_json::from_str(&line.unwrap()).unwrap();
            let ops = b["ops"].as_array().unwrap();
            let mut buf: Vec<u8> = Vec::new();
            let last = run_ops(idx as u64, ops, &mut buf);
            n += 1;
            events += ops.len();
            let ok = match (&last, b.get("last")) {
                (Some(o), Some(e)) => crate::subset_match(e, o, "").is_ok(),
                _ => true,
            };
            if !ok {
                out.write_all(&buf).unwrap();
                if mism.len() < 20 {
                    mism.push(json!({"line": idx}));
                }
            }
        }
        println!("{}", json!({"behaviours": n, "events": events, "mismatches": mism}));
    } else {
        let seed: u64 = args[1].parse().unwrap();
        let count: u64 = args[2].parse().unwrap();
        let len: usize = args[3].parse().unwrap();
        let maxalloc: usize = args[4].parse().unwrap();
        let mut out = std::io::BufWriter::new(std::fs::File::create(&args[5]).unwrap());
        let mut rng = Rng::new(seed);
        let mut events = 0;
        for id in 0..count {
            // generate a valid op sequence by tracking the live node ids
            let mut live: Vec<usize> = Vec::new();
            let mut nalloc = 0usize;
            let mut ops: Vec<Value> = Vec::new();
            for _ in 0..len {
                let c = rng.below(100);
                if (c < 35 || live.is_empty()) && nalloc < maxalloc {
                    nalloc += 1;
                    live.push(nalloc);
                    ops.push(json!({"op": "PushBack", "e": nalloc}));
                } else if c < 45 {
                    if !live.is_empty() {
                        live.remove(0);
                    }
                    ops.push(json!({"op": "PopFront"}));
                } else if c < 65 && !live.is_empty() {
                    let i = rng.below(live.len() as u64) as usize;
                    let n = live.remove(i);
                    live.push(n);
                    ops.push(json!({"op": "MoveToBack", "n": n}));
                } else if c < 72 {
                    if !live.is_empty() {
                        let n = live.remove(0);
                        live.push(n);
                    }
                    ops.push(json!({"op": "MoveFrontToBack"}));
                } else if c < 85 && !live.is_empty() {
                    let i = rng.below(live.len() as u64) as usize;
                    let n = live.remove(i);
                    ops.push(json!({"op": "UnlinkAndDrop", "n": n}));
                } else if c < 95 {
                    ops.push(json!({"op": "IterNext"}));
                } else if !live.is_empty() {
                    let n = *rng.pick(&live);
                    ops.push(json!({"op": "Contains", "n": n}));
                }
            }
            events += ops.len();
            run_ops(id, &ops, &mut out);
        }
        println!("{}", json!({"behaviours": count, "events": events}));
    }
}
