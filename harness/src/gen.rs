//! Seeded random behaviour generators (mode V). Output: one behaviour per line.

use crate::types::Rng;
use serde_json::{json, Value};

pub struct Profile {
    pub kind: &'static str,
    pub nkeys: u32,
    pub caps: Vec<i64>,
    pub ttls: Vec<i64>,
    pub ttis: Vec<i64>,
    pub weights: Vec<u32>, // empty: no weigher
    pub hashers: Vec<&'static str>,
    pub sync_every_op: bool,
    pub p_sync: u64, // percent chance of Sync after an op (sync kind)
    pub max_adv: u64,
    /// start beyond the periodical-sync interval (records accumulate) and finish with a
    /// sync() followed by a lookup of every key
    pub far: bool,
}

pub fn gen_behaviour(rng: &mut Rng, p: &Profile, len: usize, id: u64) -> Value {
    let cap = *rng.pick(&p.caps);
    // lists of equal length are read as pairs (ttl[i], tti[i])
    let (ttl, tti) = if p.ttls.len() == p.ttis.len() && p.ttls.len() > 4 {
        let i = rng.below(p.ttls.len() as u64) as usize;
        (p.ttls[i], p.ttis[i])
    } else {
        (*rng.pick(&p.ttls), *rng.pick(&p.ttis))
    };
    let weigher = !p.weights.is_empty() && rng.chance(2, 3);
    let hasher = *rng.pick(&p.hashers);
    let cfg = json!({"kind": p.kind, "cap": cap, "ttl": ttl, "tti": tti, "weigher": weigher,
        "hasher": hasher, "nkeys": p.nkeys, "lean": false, "seed": rng.next() % 1000});
    let mut ops: Vec<Value> = Vec::new();
    let mut vid = 1u32;
    let sync_kind = p.kind == "sync";
    // a bias towards a few hot keys makes admission contests interesting
    let hot = 1 + rng.below(p.nkeys as u64) as u32;
    if p.far {
        ops.push(json!({"op": "Advance", "d": 1}));
    }
    while ops.len() < len {
        let k = if rng.chance(1, 4) {
            hot
        } else {
            1 + rng.below(p.nkeys as u64) as u32
        };
        let mut c = rng.below(100);
        let has_exp = ttl >= 0 || tti >= 0;
        // the expiry-heavy single-threaded profile uses predicate invalidation more often
        if p.kind == "unsync" && p.ttls.len() > 4 && c >= 40 && c < 58 && rng.chance(1, 2) {
            c = 82;
        }
        let op = if c < 30 {
            let w = if weigher { *rng.pick(&p.weights) } else { 1 };
            let v = vid;
            vid += 1;
            json!({"op": "Insert", "k": k, "v": v, "w": w})
        } else if c < 58 {
            json!({"op": "Get", "k": k})
        } else if c < 70 {
            json!({"op": "Contains", "k": k})
        } else if c < 77 {
            json!({"op": "Invalidate", "k": k})
        } else if c < 80 {
            json!({"op": "InvalidateAll"})
        } else if c < 84 {
            if sync_kind {
                json!({"op": "Sync"})
            } else if rng.chance(1, 2) {
                let n = rng.below(3) as usize;
                let pk: Vec<u32> = (0..n).map(|_| 1 + rng.below(p.nkeys as u64) as u32).collect();
                json!({"op": "InvalidateIf", "pk": pk, "vm": 0, "vr": 0})
            } else {
                let vm = 2 + rng.below(2) as u32;
                json!({"op": "InvalidateIf", "pk": [], "vm": vm, "vr": rng.below(vm as u64)})
            }
        } else if c < 90 {
            if (has_exp || sync_kind) && rng.chance(1, 3) {
                // an iterator alive across a clock step; on the concurrent cache its owner may
                // also call invalidate_all() before taking the rest
                let xa = sync_kind && rng.chance(1, 2);
                json!({"op": "IterSplit", "take": rng.below(3), "d": 1 + rng.below(p.max_adv), "xa": xa})
            } else {
                json!({"op": "Iter"})
            }
        } else if c < 96 && has_exp || c < 92 || (has_exp && p.max_adv == 1 && rng.chance(1, 3)) {
            json!({"op": "Advance", "d": 1 + rng.below(p.max_adv)})
        } else {
            // a sweep: contains_key over the whole universe
            for kk in 1..=p.nkeys {
                ops.push(json!({"op": "Contains", "k": kk}));
            }
            continue;
        };
        let is_adv = op["op"] == "Advance" || op["op"] == "IterSplit";
        let xa = op["op"] == "IterSplit" && op["xa"] == json!(true);
        ops.push(op);
        if xa {
            // the same call again as an ordinary event at the same reading (it changes nothing)
            ops.push(json!({"op": "InvalidateAll"}));
        }
        if sync_kind && !is_adv && (p.sync_every_op || rng.below(100) < p.p_sync) {
            ops.push(json!({"op": "Sync"}));
        }
    }
    if p.far {
        ops.push(json!({"op": "Sync"}));
        for kk in 1..=p.nkeys {
            ops.push(json!({"op": "Get", "k": kk}));
        }
        ops.push(json!({"op": "Sync"}));
    }
    json!({"id": id, "cfg": cfg, "ops": ops})
}

pub fn profile(name: &str) -> Profile {
    match name {
        "unsync-small" => Profile {
            kind: "unsync",
            nkeys: 4,
            caps: vec![-1, 0, 1, 2, 3],
            ttls: vec![-1, -1, 0, 2, 3],
            ttis: vec![-1, -1, 2, 3],
            weights: vec![0, 1, 1, 2, 5],
            hashers: vec!["id", "id", "const"],
            sync_every_op: false,
            p_sync: 0,
            max_adv: 2,
            far: false,
        },
        "unsync-mid" => Profile {
            kind: "unsync",
            nkeys: 12,
            caps: vec![-1, 4, 6, 8, 16],
            ttls: vec![-1, -1, 5, 9],
            ttis: vec![-1, -1, 4, 7],
            weights: vec![0, 1, 1, 2, 3, 20],
            hashers: vec!["id", "mix", "const"],
            sync_every_op: false,
            p_sync: 0,
            max_adv: 3,
            far: false,
        },
        "sync-small" => Profile {
            kind: "sync",
            nkeys: 4,
            caps: vec![-1, 0, 1, 2, 3],
            ttls: vec![-1, -1, 0, 2, 3],
            ttis: vec![-1, -1, 2, 3],
            weights: vec![0, 1, 1, 2, 5],
            hashers: vec!["id", "id", "const"],
            sync_every_op: false,
            p_sync: 30,
            max_adv: 2,
            far: false,
        },
        "sync-mid" => Profile {
            kind: "sync",
            nkeys: 12,
            caps: vec![-1, 4, 6, 8, 16],
            ttls: vec![-1, -1, 5, 9],
            ttis: vec![-1, -1, 4, 7],
            weights: vec![0, 1, 1, 2, 3, 20],
            hashers: vec!["id", "mix", "const"],
            sync_every_op: false,
            p_sync: 25,
            max_adv: 3,
            far: false,
        },
        "sync-eager" => Profile {
            kind: "sync",
            nkeys: 8,
            caps: vec![2, 3, 4, 6],
            ttls: vec![-1, -1, 6],
            ttis: vec![-1, -1, 5],
            weights: vec![0, 1, 1, 2, 3],
            hashers: vec!["id", "mix"],
            sync_every_op: true,
            p_sync: 100,
            max_adv: 2,
            far: false,
        },
        "unsync-exp" => Profile {
            kind: "unsync",
            nkeys: 4,
            caps: vec![-1, 2, 3, 3],
            ttls: vec![2, 3, 2, 3, 2, -1],
            ttis: vec![-1, -1, 3, 2, 2, 2],
            weights: vec![1, 1, 2],
            hashers: vec!["id"],
            sync_every_op: false,
            p_sync: 0,
            max_adv: 1,
            far: false,
        },
        "sync-exp" => Profile {
            kind: "sync",
            nkeys: 3,
            caps: vec![-1, 2, 2, 3],
            ttls: vec![2, 3, 2, 3, 2, -1],
            ttis: vec![-1, -1, 3, 2, 2, 2],
            weights: vec![1, 1, 2],
            hashers: vec!["id"],
            sync_every_op: false,
            p_sync: 40,
            max_adv: 1,
            far: false,
        },
        "sync-far" => Profile {
            kind: "sync",
            nkeys: 3,
            caps: vec![1, 2, 2, 3],
            ttls: vec![-1, -1, -1, 4],
            ttis: vec![-1, -1, 3],
            weights: vec![1, 1, 2],
            hashers: vec!["id"],
            sync_every_op: false,
            p_sync: 10,
            max_adv: 1,
            far: true,
        },
        other => panic!("unknown profile {}", other),
    }
}

/// Far-regime bursts, enumerated: fill the cache and sync; let time pass (optionally with an
/// invalidate_all); then every sequence of `len` un-synced calls over three keys; then sync and
/// look every key up.
fn gen_bursts(len: usize, count: u64, seed: u64) {
    use std::io::Write;
    let out = std::io::stdout();
    let mut o = std::io::BufWriter::new(out.lock());
    let nkeys = 3u32;
    let mut alphabet: Vec<Value> = Vec::new();
    for k in 1..=nkeys {
        alphabet.push(json!({"op": "Insert", "k": k}));
        alphabet.push(json!({"op": "Invalidate", "k": k}));
        alphabet.push(json!({"op": "Get", "k": k}));
    }
    let total = (alphabet.len() as u64).pow(len as u32);
    let mut rng = Rng::new(seed);
    let mut id = 0u64;
    for cap in [1i64, 2, 3] {
        // (invalidate_all, ttl, tti): with a duration of one tick everything filled in is expired
        // but not yet purged when the burst begins
        for (ia, ttl, tti) in [(false, -1i64, -1i64), (true, -1, -1), (false, -1, 1), (false, 1, -1)] {
            // all sequences if they are few enough, otherwise a seeded sample of `count`
            let n = if total <= count { total } else { count };
            for j in 0..n {
                let mut code = if total <= count { j } else { rng.below(total) };
                let cfg = json!({"kind": "sync", "cap": cap, "ttl": ttl, "tti": tti, "weigher": false,
                    "hasher": "id", "nkeys": nkeys, "lean": false, "seed": 0});
                let mut ops: Vec<Value> = Vec::new();
                let mut vid = 1u32;
                for k in 1..=(cap as u32).min(nkeys) {
                    ops.push(json!({"op": "Insert", "k": k, "v": vid, "w": 1}));
                    vid += 1;
                }
                ops.push(json!({"op": "Sync"}));
                ops.push(json!({"op": "Advance", "d": 1}));
                if ia {
                    ops.push(json!({"op": "InvalidateAll"}));
                }
                for _ in 0..len {
                    let a = alphabet[(code % alphabet.len() as u64) as usize].clone();
                    code /= alphabet.len() as u64;
                    if a["op"] == "Insert" {
                        ops.push(json!({"op": "Insert", "k": a["k"], "v": vid, "w": 1}));
                        vid += 1;
                    } else {
                        ops.push(a);
                    }
                }
                ops.push(json!({"op": "Sync"}));
                for k in 1..=nkeys {
                    ops.push(json!({"op": "Get", "k": k}));
                }
                ops.push(json!({"op": "Sync"}));
                writeln!(o, "{}", json!({"id": id, "cfg": cfg, "ops": ops})).unwrap();
                id += 1;
            }
        }
    }
}

/// Eager use (sync() after every call) with a weigher and expiry: entries of different ages,
/// then every sequence of `len` calls among weight-changing updates and gets, so that one
/// maintenance run both applies a growth and purges what has just expired.
fn gen_grow(len: usize, count: u64, seed: u64) {
    use std::io::Write;
    let out = std::io::stdout();
    let mut o = std::io::BufWriter::new(out.lock());
    let mut alphabet: Vec<Value> = Vec::new();
    for k in 1..=3u32 {
        for w in [1u32, 2, 3] {
            alphabet.push(json!({"op": "Insert", "k": k, "w": w}));
        }
        alphabet.push(json!({"op": "Get", "k": k}));
    }
    let total = (alphabet.len() as u64).pow(len as u32) * 8;
    let mut rng = Rng::new(seed);
    let mut id = 0u64;
    for cap in [3i64, 4] {
        for (ttl, ia) in [(2i64, false), (-1, true)] {
            let n = if total <= count { total } else { count };
            for j in 0..n {
                let mut code = if total <= count { j } else { rng.below(total) };
                let cfg = json!({"kind": "sync", "cap": cap, "ttl": ttl, "tti": -1, "weigher": true,
                    "hasher": "id", "nkeys": 3, "lean": false, "seed": 0});
                let mut ops: Vec<Value> = Vec::new();
                let mut vid = 1u32;
                let mut w3 = [0u32; 3];
                for x in w3.iter_mut() {
                    *x = 1 + (code % 2) as u32;
                    code /= 2;
                }
                let ins = |ops: &mut Vec<Value>, k: u32, w: u32, vid: &mut u32| {
                    ops.push(json!({"op": "Insert", "k": k, "v": *vid, "w": w}));
                    *vid += 1;
                    ops.push(json!({"op": "Sync"}));
                };
                ins(&mut ops, 1, w3[0], &mut vid);
                ops.push(json!({"op": "Advance", "d": 1}));
                ins(&mut ops, 2, w3[1], &mut vid);
                ins(&mut ops, 3, w3[2], &mut vid);
                if ia {
                    // key 1 is older than the invalidation, keys 2 and 3 are refreshed after it
                    ops.push(json!({"op": "Advance", "d": 1}));
                    ops.push(json!({"op": "InvalidateAll"}));
                    ops.push(json!({"op": "Advance", "d": 1}));
                    ins(&mut ops, 2, w3[1], &mut vid);
                    ins(&mut ops, 3, w3[2], &mut vid);
                } else {
                    ops.push(json!({"op": "Advance", "d": 1}));
                }
                for _ in 0..len {
                    let a = alphabet[(code % alphabet.len() as u64) as usize].clone();
                    code /= alphabet.len() as u64;
                    if a["op"] == "Insert" {
                        ops.push(json!({"op": "Insert", "k": a["k"], "v": vid, "w": a["w"]}));
                        vid += 1;
                    } else {
                        ops.push(a);
                    }
                    ops.push(json!({"op": "Sync"}));
                }
                for k in 1..=3u32 {
                    ops.push(json!({"op": "Get", "k": k}));
                    ops.push(json!({"op": "Sync"}));
                }
                writeln!(o, "{}", json!({"id": id, "cfg": cfg, "ops": ops})).unwrap();
                id += 1;
            }
        }
    }
}

/// More simultaneously expired entries than one maintenance batch purges (100 on the
/// single-threaded cache, 500 on the concurrent one): what is expired but not yet swept must
/// stay invisible, whatever is looked up first.
fn gen_batch(kind: &str, count: u64, seed: u64) {
    use std::io::Write;
    let out = std::io::stdout();
    let mut o = std::io::BufWriter::new(out.lock());
    let mut rng = Rng::new(seed);
    let n: u32 = if kind == "unsync" { 130 } else { 540 };
    for id in 0..count {
        let (ttl, tti) = *rng.pick(&[(-1i64, 2i64), (3, -1), (3, 2), (2, 3)]);
        let cfg = json!({"kind": kind, "cap": -1, "ttl": ttl, "tti": tti, "weigher": false,
            "hasher": "mix", "nkeys": n, "lean": true, "seed": rng.below(1000)});
        let mut ops: Vec<Value> = Vec::new();
        for k in 1..=n {
            ops.push(json!({"op": "Insert", "k": k, "v": k, "w": 1}));
        }
        if kind == "sync" {
            ops.push(json!({"op": "Sync"}));
        }
        // land exactly on the earlier of the two deadlines: only that policy has expired
        let dead = [ttl, tti].iter().cloned().filter(|d| *d >= 0).min().unwrap() as u64;
        ops.push(json!({"op": "Advance", "d": dead}));
        // the first lookups after the deadline (only the first finds entries expired but not yet
        // swept), at the recent end of the queues
        for j in 0..6 {
            let k = if j == 0 || rng.chance(3, 4) { n - rng.below(25) as u32 } else { 1 + rng.below(n as u64) as u32 };
            let op = if (id + j) % 2 == 0 { "Contains" } else { "Get" };
            ops.push(json!({"op": op, "k": k}));
        }
        ops.push(json!({"op": "Iter"}));
        writeln!(o, "{}", json!({"id": id, "cfg": cfg, "ops": ops})).unwrap();
    }
}

/// More successful gets than the read queue has slots (384), issued without a write in the far
/// housekeeping regime, then sync(): every one of them must have extended the idle timer of its
/// entry ("guaranteed once pending maintenance has run"), so after a further clock step that
/// passes the deadline counted from the insert, but not the one counted from the get, every key
/// is still there.
fn gen_reads(count: u64, seed: u64) {
    use std::io::Write;
    let out = std::io::stdout();
    let mut o = std::io::BufWriter::new(out.lock());
    let mut rng = Rng::new(seed);
    let n: u32 = 450;
    for id in 0..count {
        let stepping = id % 2 == 1;
        let tti: i64 = if stepping { 20 } else { 10 };
        let ttl: i64 = *rng.pick(&[-1i64, 60]);
        let cfg = json!({"kind": "sync", "cap": -1, "ttl": ttl, "tti": tti, "weigher": false,
            "hasher": "mix", "nkeys": n, "lean": true, "seed": rng.below(1000)});
        let mut ops: Vec<Value> = Vec::new();
        for k in 1..=n {
            ops.push(json!({"op": "Insert", "k": k, "v": k, "w": 1}));
        }
        ops.push(json!({"op": "Sync"}));
        ops.push(json!({"op": "Advance", "d": 6}));
        let start = rng.below(n as u64) as u32;
        for j in 0..n {
            let k = 1 + (start + j) % n;
            ops.push(json!({"op": "Get", "k": k}));
            if stepping && j % 100 == 99 {
                // keep the clock moving so that housekeeping stays in the far regime
                ops.push(json!({"op": "Advance", "d": 1}));
            }
        }
        ops.push(json!({"op": "Sync"}));
        ops.push(json!({"op": "Sync"}));
        ops.push(json!({"op": "Advance", "d": if stepping { 12 } else { 6 }}));
        for j in 0..10 {
            // the keys read last are the ones whose records would not have found a slot
            let k = if j < 6 { 1 + (start + n - 1 - rng.below(60) as u32) % n } else { 1 + rng.below(n as u64) as u32 };
            let op = if (id + j) % 2 == 0 { "Contains" } else { "Get" };
            ops.push(json!({"op": op, "k": k}));
        }
        ops.push(json!({"op": "Iter"}));
        writeln!(o, "{}", json!({"id": id, "cfg": cfg, "ops": ops})).unwrap();
    }
}

/// Stale nodes in an admission contest, enumerated: a full cache whose residents and whose
/// newcomer have every combination of small popularities; then, in the far regime, one batch
/// holding the insert of the newcomer and the invalidation of one or two residents, in every
/// order; then sync and a lookup of every key.  While the batch is applied the invalidated
/// keys have left the map but their nodes are still queued.
fn gen_stale(count: u64, seed: u64) {
    use std::io::Write;
    let out = std::io::stdout();
    let mut o = std::io::BufWriter::new(out.lock());
    let mut rng = Rng::new(seed);
    let mut all: Vec<Value> = Vec::new();
    for (cap, weigher) in [(2u32, false), (3, false), (3, true)] {
        let n = cap + 1;
        let nfreq = 3u64.pow(cap) * 4;
        // batches: the newcomer's insert and the invalidations, in every order
        let mut batches: Vec<Vec<(bool, u32)>> = Vec::new();
        for j in 1..=cap {
            batches.push(vec![(true, n), (false, j)]);
            batches.push(vec![(false, j), (true, n)]);
            for j2 in 1..=cap {
                if j2 != j {
                    batches.push(vec![(true, n), (false, j), (false, j2)]);
                    batches.push(vec![(false, j), (true, n), (false, j2)]);
                }
            }
        }
        for code0 in 0..nfreq {
            for b in batches.iter() {
                let mut code = code0;
                let cfg = json!({"kind": "sync", "cap": cap, "ttl": -1, "tti": -1, "weigher": weigher,
                    "hasher": "id", "nkeys": 4, "lean": false, "seed": 0});
                let mut ops: Vec<Value> = Vec::new();
                let mut vid = 1u32;
                // the preparation is eager use (sync() after every call): the monitors of C12 and
                // C13 then know the order in which maintenance has applied everything so far
                for k in 1..=cap {
                    ops.push(json!({"op": "Insert", "k": k, "v": vid, "w": 1}));
                    ops.push(json!({"op": "Sync"}));
                    vid += 1;
                }
                for k in 1..=cap {
                    for _ in 0..(code % 3) {
                        ops.push(json!({"op": "Get", "k": k}));
                        ops.push(json!({"op": "Sync"}));
                    }
                    code /= 3;
                }
                for _ in 0..(code % 4) {
                    ops.push(json!({"op": "Get", "k": n}));
                    ops.push(json!({"op": "Sync"}));
                }
                ops.push(json!({"op": "Advance", "d": 1}));
                for (ins, k) in b.iter() {
                    if *ins {
                        // with a weigher the newcomer weighs 2: one invalidation alone makes no room
                        ops.push(json!({"op": "Insert", "k": k, "v": vid, "w": if weigher { 2 } else { 1 }}));
                        vid += 1;
                    } else {
                        ops.push(json!({"op": "Invalidate", "k": k}));
                    }
                }
                ops.push(json!({"op": "Sync"}));
                for k in 1..=n {
                    ops.push(json!({"op": "Get", "k": k}));
                }
                ops.push(json!({"op": "Sync"}));
                all.push(json!({"cfg": cfg, "ops": ops}));
            }
        }
    }
    // everything if it is little enough, otherwise a seeded sample
    let total = all.len() as u64;
    let mut id = 0u64;
    for (i, mut b) in all.into_iter().enumerate() {
        let left = total - i as u64;
        let want = count.saturating_sub(id);
        if total <= count || rng.below(left) < want {
            b["id"] = json!(id);
            writeln!(o, "{}", b).unwrap();
            id += 1;
        }
    }
}

/// Admission contests, enumerated: a cache filled to its capacity by two or three residents of
/// every combination of small weights (zero included) and small popularities, in every recency
/// order the reads produce, then a newcomer of every small weight and popularity; then a lookup
/// of every key. On the concurrent cache every call is followed by sync() (eager use), so the
/// monitors of C12 and C13 know the order in which maintenance applied the calls.
fn gen_admit(kind: &str, count: u64, seed: u64) {
    use std::io::Write;
    let out = std::io::stdout();
    let mut o = std::io::BufWriter::new(out.lock());
    let mut rng = Rng::new(seed);
    let sync = kind == "sync";
    let mut all: Vec<Value> = Vec::new();
    for r in [2u32, 3] {
        let n = r + 1;
        let nw = 3u64.pow(r);
        let np = 3u64.pow(r);
        for wcode in 0..nw {
            let ws: Vec<u32> = (0..r).map(|i| ((wcode / 3u64.pow(i)) % 3) as u32).collect();
            let total: u32 = ws.iter().sum();
            if total == 0 {
                continue;
            }
            for pcode in 0..np {
                let ps: Vec<u32> = (0..r).map(|i| ((pcode / 3u64.pow(i)) % 3) as u32).collect();
                for wc in 1..=3u32 {
                    for pc in 0..4u32 {
                        // three residents: a seeded third of the combinations
                        if r == 3 && !rng.chance(1, 3) {
                            continue;
                        }
                        // every third contest runs with a time_to_live and goes on afterwards (below)
                        let with_ttl = all.len() % 3 == 2;
                        // every fourth one with weights in units of 2^30: two residents of two units
                        // already weigh more than u32::MAX together, the capacity exceeds it
                        // (an even capacity only: the code halves it to decide when the estimator starts)
                        let wscale: u64 = if all.len() % 4 == 1 && total % 2 == 0 { 1 << 30 } else { 1 };
                        let cfg = json!({"kind": kind, "cap": total, "ttl": if with_ttl { 5 } else { -1 }, "tti": -1, "weigher": true,
                            "hasher": "id", "nkeys": 4, "lean": false, "seed": 0, "wscale": wscale});
                        let mut ops: Vec<Value> = Vec::new();
                        let mut push = |ops: &mut Vec<Value>, op: Value| {
                            ops.push(op);
                            if sync {
                                ops.push(json!({"op": "Sync"}));
                            }
                        };
                        for k in 1..=r {
                            push(&mut ops, json!({"op": "Insert", "k": k, "v": k, "w": ws[(k - 1) as usize]}));
                        }
                        // the reads, resident by resident from a seeded starting point (the order
                        // of the last reads is the recency order), then the newcomer's misses
                        let start = rng.below(r as u64) as u32;
                        for j in 0..r {
                            let k = 1 + (start + j) % r;
                            for _ in 0..ps[(k - 1) as usize] {
                                push(&mut ops, json!({"op": "Get", "k": k}));
                            }
                        }
                        for _ in 0..pc {
                            push(&mut ops, json!({"op": "Get", "k": n}));
                        }
                        push(&mut ops, json!({"op": "Insert", "k": n, "v": 10 + n, "w": wc}));
                        for k in 1..=n {
                            ops.push(json!({"op": "Contains", "k": k}));
                        }
                        ops.push(json!({"op": "Iter"}));
                        if with_ttl {
                            // the aftermath of a contest: room is made, a key that may have been a
                            // victim is written again, and the clock reaches the deadline of the
                            // first writes (not of the new one): queue nodes left behind by the
                            // contest would now take the new entry with them
                            ops.push(json!({"op": "Advance", "d": 2}));
                            push(&mut ops, json!({"op": "Invalidate", "k": n}));
                            push(&mut ops, json!({"op": "Invalidate", "k": r}));
                            push(&mut ops, json!({"op": "Insert", "k": 1, "v": 21, "w": ws[0]}));
                            ops.push(json!({"op": "Advance", "d": 3}));
                            for k in 1..=n {
                                ops.push(json!({"op": if k % 2 == 1 { "Contains" } else { "Get" }, "k": k}));
                            }
                            ops.push(json!({"op": "Iter"}));
                        }
                        all.push(json!({"cfg": cfg, "ops": ops}));
                    }
                }
            }
        }
    }
    let total = all.len() as u64;
    let mut id = 0u64;
    for (i, mut b) in all.into_iter().enumerate() {
        let left = total - i as u64;
        let want = count.saturating_sub(id);
        if total <= count || rng.below(left) < want {
            b["id"] = json!(id);
            writeln!(o, "{}", b).unwrap();
            id += 1;
        }
    }
}

/// An in-place update that outgrows the cache by more than one eviction batch (500): the first
/// maintenance run removes one batch, the following runs must remove the rest although they
/// apply no writes ("which following operations remove").
fn gen_evict(count: u64, seed: u64) {
    use std::io::Write;
    let out = std::io::stdout();
    let mut o = std::io::BufWriter::new(out.lock());
    let mut rng = Rng::new(seed);
    for id in 0..count {
        let n: u32 = 600 + rng.below(40) as u32;
        let cfg = json!({"kind": "sync", "cap": n, "ttl": -1, "tti": -1, "weigher": true,
            "hasher": "mix", "nkeys": n, "lean": true, "seed": rng.below(1000)});
        let mut ops: Vec<Value> = Vec::new();
        for k in 1..=n {
            ops.push(json!({"op": "Insert", "k": k, "v": k, "w": 1}));
            if k == n / 2 + 20 {
                // lookups recorded while the estimator is on and the cache is still filling: what
                // they have recorded must survive the rest of the fill (no aging step is due yet)
                ops.push(json!({"op": "Sync"}));
                for _ in 0..3 {
                    ops.push(json!({"op": "Get", "k": 1}));
                }
                ops.push(json!({"op": "Get", "k": 2}));
                ops.push(json!({"op": "Sync"}));
            }
        }
        ops.push(json!({"op": "Sync"}));
        if id % 2 == 1 {
            ops.push(json!({"op": "Advance", "d": 1}));
        }
        let big = 1 + rng.below(n as u64) as u32;
        ops.push(json!({"op": "Insert", "k": big, "v": 1000 + big, "w": n}));
        ops.push(json!({"op": "Sync"}));
        ops.push(json!({"op": "Sync"}));
        for _ in 0..4 {
            ops.push(json!({"op": "Get", "k": 1 + rng.below(n as u64) as u32}));
        }
        ops.push(json!({"op": "Sync"}));
        ops.push(json!({"op": "Get", "k": big}));
        ops.push(json!({"op": "Iter"}));
        writeln!(o, "{}", json!({"id": id, "cfg": cfg, "ops": ops})).unwrap();
    }
}

/// The single-threaded cache with a weigher filled with more entries than the estimator's smallest
/// table holds, lookups recorded half way: the estimates must survive the rest of the fill.
fn gen_fill(count: u64, seed: u64) {
    use std::io::Write;
    let out = std::io::stdout();
    let mut o = std::io::BufWriter::new(out.lock());
    let mut rng = Rng::new(seed);
    for id in 0..count {
        let n: u32 = 280 + rng.below(20) as u32;
        let cfg = json!({"kind": "unsync", "cap": n, "ttl": -1, "tti": -1, "weigher": true,
            "hasher": "mix", "nkeys": n, "lean": true, "seed": rng.below(1000)});
        let mut ops: Vec<Value> = Vec::new();
        for k in 1..=n {
            ops.push(json!({"op": "Insert", "k": k, "v": k, "w": 1}));
            if k == n / 2 + 10 {
                for _ in 0..3 {
                    ops.push(json!({"op": "Get", "k": 1}));
                }
                ops.push(json!({"op": "Get", "k": 2}));
            }
        }
        ops.push(json!({"op": "Get", "k": 1}));
        ops.push(json!({"op": "Contains", "k": n}));
        ops.push(json!({"op": "Iter"}));
        writeln!(o, "{}", json!({"id": id, "cfg": cfg, "ops": ops})).unwrap();
    }
}

/// Mixed batches in the far regime, enumerated: a full cache whose residents and whose newcomer
/// have every combination of small popularities; then one un-synced batch holding the insert of
/// the newcomer and one or two actions on residents (update, read, invalidate), in every order;
/// then sync and a lookup of every key. Maintenance applies the reads of the batch first, then
/// its writes in order: the recency order it builds decides the victims.
fn gen_mixed(count: u64, seed: u64) {
    use std::io::Write;
    let out = std::io::stdout();
    let mut o = std::io::BufWriter::new(out.lock());
    let mut rng = Rng::new(seed);
    let mut all: Vec<Value> = Vec::new();
    for (cap, weigher) in [(2u32, false), (3, false), (2, true)] {
        let n = cap + 1;
        let nfreq = 3u64.pow(cap) * 4;
        // actions on residents: (kind, key); kind 0 = invalidate, 1 = update, 2 = get
        let mut acts: Vec<(u8, u32)> = Vec::new();
        for j in 1..=cap {
            for kind in 0..3u8 {
                acts.push((kind, j));
            }
        }
        let mut batches: Vec<Vec<(u8, u32)>> = Vec::new(); // kind 9 = the newcomer's insert
        for a in acts.iter() {
            batches.push(vec![(9, n), *a]);
            batches.push(vec![*a, (9, n)]);
            for b in acts.iter() {
                if a != b {
                    batches.push(vec![(9, n), *a, *b]);
                    batches.push(vec![*a, (9, n), *b]);
                    batches.push(vec![*a, *b, (9, n)]);
                }
            }
        }
        for code0 in 0..nfreq {
            for b in batches.iter() {
                // (a seeded fifth: the product is large)
                if !rng.chance(1, 5) {
                    continue;
                }
                let mut code = code0;
                let cfg = json!({"kind": "sync", "cap": cap, "ttl": -1, "tti": -1, "weigher": weigher,
                    "hasher": "id", "nkeys": 4, "lean": false, "seed": 0});
                let mut ops: Vec<Value> = Vec::new();
                let mut vid = 1u32;
                for k in 1..=cap {
                    ops.push(json!({"op": "Insert", "k": k, "v": vid, "w": 1}));
                    ops.push(json!({"op": "Sync"}));
                    vid += 1;
                }
                for k in 1..=cap {
                    for _ in 0..(code % 3) {
                        ops.push(json!({"op": "Get", "k": k}));
                        ops.push(json!({"op": "Sync"}));
                    }
                    code /= 3;
                }
                for _ in 0..(code % 4) {
                    ops.push(json!({"op": "Get", "k": n}));
                    ops.push(json!({"op": "Sync"}));
                }
                ops.push(json!({"op": "Advance", "d": 1}));
                for (kind, k) in b.iter() {
                    match kind {
                        9 => {
                            ops.push(json!({"op": "Insert", "k": k, "v": vid, "w": 1}));
                            vid += 1;
                        }
                        0 => ops.push(json!({"op": "Invalidate", "k": k})),
                        1 => {
                            // with a weigher the update also changes the weight (1 -> 2 does not fit any more)
                            ops.push(json!({"op": "Insert", "k": k, "v": vid, "w": if weigher { 2 } else { 1 }}));
                            vid += 1;
                        }
                        _ => ops.push(json!({"op": "Get", "k": k})),
                    }
                }
                ops.push(json!({"op": "Sync"}));
                for k in 1..=n {
                    ops.push(json!({"op": "Get", "k": k}));
                }
                ops.push(json!({"op": "Sync"}));
                all.push(json!({"cfg": cfg, "ops": ops}));
            }
        }
    }
    let total = all.len() as u64;
    let mut id = 0u64;
    for (i, mut b) in all.into_iter().enumerate() {
        let left = total - i as u64;
        let want = count.saturating_sub(id);
        if total <= count || rng.below(left) < want {
            b["id"] = json!(id);
            writeln!(o, "{}", b).unwrap();
            id += 1;
        }
    }
}

/// The flush points at their real values: in the far regime (nothing but a full-enough log
/// triggers maintenance) runs of writes and of reads that stop just below, at and just above
/// 64 records, over a handful of keys; the snapshots after every call show the queue lengths.
fn gen_flush(count: u64, seed: u64) {
    use std::io::Write;
    let out = std::io::stdout();
    let mut o = std::io::BufWriter::new(out.lock());
    let mut rng = Rng::new(seed);
    let mut id = 0u64;
    let nkeys = 6u32;
    for cap in [-1i64, 3] {
        for (nw, nr) in [(63u32, 0u32), (64, 0), (66, 0), (0, 63), (0, 64), (0, 66), (40, 40), (64, 64), (130, 10), (10, 130)] {
            for order in 0..3 {
                if id >= count {
                    return;
                }
                let cfg = json!({"kind": "sync", "cap": cap, "ttl": -1, "tti": -1, "weigher": false,
                    "hasher": "id", "nkeys": nkeys, "lean": false, "seed": 0});
                let mut ops: Vec<Value> = Vec::new();
                let mut vid = 1u32;
                for k in 1..=3u32 {
                    ops.push(json!({"op": "Insert", "k": k, "v": vid, "w": 1}));
                    vid += 1;
                }
                ops.push(json!({"op": "Sync"}));
                ops.push(json!({"op": "Advance", "d": 1}));
                let (mut w, mut r) = (nw, nr);
                while w + r > 0 {
                    // order 0: writes first; 1: reads first; 2: shuffled
                    let write = match order {
                        0 => w > 0,
                        1 => r == 0,
                        _ => w > 0 && (r == 0 || rng.chance(1, 2)),
                    };
                    let k = 1 + rng.below(nkeys as u64) as u32;
                    if write {
                        if rng.chance(1, 5) {
                            ops.push(json!({"op": "Invalidate", "k": k}));
                        } else {
                            ops.push(json!({"op": "Insert", "k": k, "v": vid, "w": 1}));
                            vid += 1;
                        }
                        w -= 1;
                    } else {
                        ops.push(json!({"op": "Get", "k": k}));
                        r -= 1;
                    }
                }
                ops.push(json!({"op": "Sync"}));
                for k in 1..=nkeys {
                    ops.push(json!({"op": "Contains", "k": k}));
                }
                writeln!(o, "{}", json!({"id": id, "cfg": cfg, "ops": ops})).unwrap();
                id += 1;
            }
        }
    }
}

pub fn cmd_gen(args: &[String]) {
    // gen <profile> <seed> <count> <len>
    if args[0] == "unsync-batch" || args[0] == "sync-batch" {
        let kind = if args[0] == "unsync-batch" { "unsync" } else { "sync" };
        gen_batch(kind, args[2].parse().unwrap(), args[1].parse().unwrap());
        return;
    }
    if args[0] == "unsync-admit" || args[0] == "sync-admit" {
        let kind = if args[0] == "unsync-admit" { "unsync" } else { "sync" };
        gen_admit(kind, args[2].parse().unwrap(), args[1].parse().unwrap());
        return;
    }
    if args[0] == "unsync-fill" {
        gen_fill(args[2].parse().unwrap(), args[1].parse().unwrap());
        return;
    }
    if args[0] == "sync-mixed" {
        gen_mixed(args[2].parse().unwrap(), args[1].parse().unwrap());
        return;
    }
    if args[0] == "sync-evict" {
        gen_evict(args[2].parse().unwrap(), args[1].parse().unwrap());
        return;
    }
    if args[0] == "sync-reads" {
        gen_reads(args[2].parse().unwrap(), args[1].parse().unwrap());
        return;
    }
    if args[0] == "sync-grow" {
        gen_grow(args[3].parse().unwrap(), args[2].parse().unwrap(), args[1].parse().unwrap());
        return;
    }
    if args[0] == "sync-flush" {
        gen_flush(args[2].parse().unwrap(), args[1].parse().unwrap());
        return;
    }
    if args[0] == "sync-stale" {
        gen_stale(args[2].parse().unwrap(), args[1].parse().unwrap());
        return;
    }
    if args[0] == "sync-burst" {
        gen_bursts(args[3].parse().unwrap(), args[2].parse().unwrap(), args[1].parse().unwrap());
        return;
    }
    // "<profile>+reent": the same histories with a weigher that looks its key up in the cache it
    // belongs to (contains_key is a pure observation, so nothing else changes)
    let (pname, reent) = match args[0].strip_suffix("+reent") {
        Some(n) => (n.to_string(), true),
        None => (args[0].clone(), false),
    };
    let p = profile(&pname);
    let seed: u64 = args[1].parse().unwrap();
    let count: u64 = args[2].parse().unwrap();
    let len: usize = args[3].parse().unwrap();
    let mut rng = Rng::new(seed);
    let out = std::io::stdout();
    let mut o = std::io::BufWriter::new(out.lock());
    use std::io::Write;
    for i in 0..count {
        let mut b = gen_behaviour(&mut rng, &p, len, i);
        if reent {
            b["cfg"]["weigher"] = json!(true);
            b["cfg"]["reent"] = json!(true);
        }
        writeln!(o, "{}", b).unwrap();
    }
}
