//! Mode F: real threads under the OS scheduler. Invocations and returns are appended to one
//! log under a mutex, so the order of the log respects real time (an operation whose return
//! precedes another's invocation in the log really returned before the other began).

use crate::cachew::*;
use crate::types::*;
use mini_moka::sync::ConcurrentCacheExt;
use mini_moka::verif::MockClock;
use serde_json::{json, Value};
use std::io::Write;
use std::sync::atomic::{AtomicBool, AtomicU64, Ordering};
use std::sync::{Arc, Mutex};
use std::time::{Duration, Instant};

fn mk_cache(cfg: &Cfg) -> (SCache, MockClock, Instant) {
    init_id_hashes(40);
    let clock = MockClock::new();
    let base = clock.now();
    let cache = match build_cache(cfg) {
        AnyCache::S(c) => c,
        _ => panic!("harness: sync cache expected"),
    };
    cache.verif_set_clock(&clock);
    (cache, clock, base)
}

/// `threads` x `ops` random operations over `nkeys` keys, stamped and logged.
fn stress(id: u64, cfg: &Cfg, threads: usize, ops: usize, seed: u64, out: &mut dyn Write) {
    reset_counters();
    let (cache, clock, base) = mk_cache(cfg);
    let log: Arc<Mutex<Vec<Value>>> = Arc::new(Mutex::new(Vec::new()));
    let mut cj = cfg.to_json();
    cj["ev"] = json!("Config");
    cj["id"] = json!(id);
    cj["threads"] = json!(threads);
    cj["mode"] = json!("free");
    log.lock().unwrap().push(cj);
    let mut hs = Vec::new();
    for t in 0..threads {
        let (cache2, log2, nk, clock2) = (cache.clone(), log.clone(), cfg.nkeys, clock.clone());
        hs.push(std::thread::spawn(move || {
            let tick = || clock2.now().duration_since(base).as_secs() as i64;
            let mut rng = Rng::new(seed * 1000 + t as u64);
            for ip in 0..ops {
                let k = 1 + rng.below(nk as u64) as u32;
                let c = rng.below(100);
                let opid = (t + 1) * 100 + ip + 1;
                let (op, v) = if c < 40 {
                    ("Insert", opid as u32)
                } else if c < 80 {
                    ("Get", 0)
                } else if c < 90 {
                    ("Invalidate", 0)
                } else if c < 94 && t == 0 {
                    // only thread 1 moves the clock, right before its invalidate_all
                    ("InvalidateAll", 0)
                } else {
                    ("Sync", 0)
                };
                if op == "InvalidateAll" {
                    clock2.advance(Duration::from_secs(1));
                }
                log2.lock().unwrap().push(json!({"ev": "Inv", "t": t + 1, "id": opid, "op": op,
                    "k": if op == "InvalidateAll" { 0 } else { k }, "v": v, "now": tick()}));
                let mut r: i64 = -1;
                match op {
                    "Insert" => cache2.insert(K::new(k), Val::new(v, 1)),
                    "Get" => r = cache2.get(&K::probe(k)).map(|v| v.id as i64).unwrap_or(-1),
                    "Invalidate" => cache2.invalidate(&K::probe(k)),
                    "InvalidateAll" => cache2.invalidate_all(),
                    _ => cache2.sync(),
                }
                log2.lock().unwrap().push(json!({"ev": "Ret", "t": t + 1, "id": opid, "r": r, "now": tick()}));
            }
        }));
    }
    let start = Instant::now();
    let mut hang = false;
    loop {
        if hs.iter().all(|h| h.is_finished()) {
            break;
        }
        if start.elapsed() > Duration::from_secs(120) {
            hang = true;
            break;
        }
        std::thread::sleep(Duration::from_millis(5));
    }
    if hang {
        log.lock().unwrap().push(json!({"ev": "Timeout", "what": "free-running threads did not finish in 120 s"}));
    } else {
        for h in hs {
            let _ = h.join();
        }
        for e in settle(cfg, cache, clock, base) {
            log.lock().unwrap().push(e);
        }
    }
    for e in log.lock().unwrap().iter() {
        writeln!(out, "{}", e).unwrap();
    }
    if hang {
        out.flush().unwrap();
        std::process::exit(3);
    }
}

/// After the threads have stopped: maintenance, the final content (C02 iii), a refill (C03),
/// and the object counts once the cache is gone (C11).
fn settle(cfg: &Cfg, cache: SCache, clock: MockClock, base: Instant) -> Vec<Value> {
    let mut evs: Vec<Value> = Vec::new();
    {
        cache.sync();
        cache.sync();
        let mut w = World::adopt(cfg.clone(), AnyCache::S(cache), clock, base);
        let mut ev = json!({"ev": "Sync", "now": w.now()});
        ev["snap"] = w.snapshot();
        ev["mx"] = json!([]);
        let items = w.exec(&json!({"op": "Iter"}))["items"].clone();
        evs.push(ev);
        evs.push(json!({"ev": "Final", "items": items}));
        let want = if cfg.cap < 0 { cfg.nkeys as i64 } else { cfg.cap.min(cfg.nkeys as i64) };
        for k in 1..=cfg.nkeys {
            w.exec(&json!({"op": "Invalidate", "k": k}));
        }
        w.exec(&json!({"op": "Sync"}));
        let mut kept = 0;
        for k in 1..=want {
            w.exec(&json!({"op": "Insert", "k": k, "v": 900 + k, "w": 1}));
            w.exec(&json!({"op": "Sync"}));
        }
        for k in 1..=want {
            if w.exec(&json!({"op": "Get", "k": k}))["r"] == json!(900 + k) {
                kept += 1;
            }
        }
        evs.push(json!({"ev": "Refill", "want": want, "kept": kept}));
        drop(w);
        use std::sync::atomic::Ordering::SeqCst;
        evs.push(json!({"ev": "End", "lk": LIVE_KEYS.load(SeqCst), "lv": LIVE_VALS.load(SeqCst),
            "dd": DOUBLE_DROPS.load(SeqCst), "km": KEYS_MADE.load(SeqCst), "kd": KEYS_DROPPED.load(SeqCst),
            "vm": VALS_MADE.load(SeqCst), "vd": VALS_DROPPED.load(SeqCst)}));
    }
    evs
}

/// A get spinning beside one write, again and again: windows inside a single operation that
/// have no switch point (C02).  Thread 1 prepares an entry and possibly kills it (invalidate,
/// or invalidate_all one clock tick later); then thread 2 performs one write of the key while
/// thread 3 reads it in a tight loop.  Every operation is stamped from one atomic counter at
/// its invocation and at its return, and the log is ordered by the stamps.  Of the gets that
/// returned nothing only the first and the last of an attempt are kept: they are never judged
/// by C02 and do not change the monitor's state.
fn race(id: u64, attempts: usize, seed: u64, out: &mut dyn Write) {
    use std::sync::atomic::Ordering::SeqCst;
    reset_counters();
    let cfg = Cfg::from_json(&json!({"kind": "sync", "cap": -1, "nkeys": 2, "hasher": "id", "weigher": false}));
    let (cache, clock, base) = mk_cache(&cfg);
    let mut cj = cfg.to_json();
    cj["ev"] = json!("Config");
    cj["id"] = json!(id);
    cj["threads"] = json!(3);
    cj["mode"] = json!("race");
    writeln!(out, "{}", cj).unwrap();
    let seq = AtomicU64::new(0);
    let tick = || clock.now().duration_since(base).as_secs() as i64;
    let mut rng = Rng::new(seed);
    let mut events: Vec<(u64, Value)> = Vec::new();
    let mut nid = [0u64; 4];
    let mut nval = [0u32; 4];
    // one logged call of thread t
    let call = |t: usize, opid: u64, op: &str, k: u32, v: u32, evs: &mut Vec<(u64, Value)>| -> i64 {
        let now = tick();
        let s0 = seq.fetch_add(1, SeqCst);
        evs.push((s0, json!({"ev": "Inv", "t": t, "id": opid, "op": op, "k": k, "v": v, "now": now})));
        let mut r: i64 = -1;
        match op {
            "Insert" => cache.insert(K::new(k), Val::new(v, 1)),
            "Get" => r = cache.get(&K::probe(k)).map(|v| v.id as i64).unwrap_or(-1),
            "Invalidate" => cache.invalidate(&K::probe(k)),
            "InvalidateAll" => cache.invalidate_all(),
            _ => cache.sync(),
        }
        let now = tick();
        let s1 = seq.fetch_add(1, SeqCst);
        evs.push((s1, json!({"ev": "Ret", "t": t, "id": opid, "r": r, "now": now})));
        r
    };
    for _ in 0..attempts {
        let k = 1 + rng.below(2) as u32;
        let mut next = |t: usize| -> (u64, u32) {
            nid[t] += 1;
            nval[t] += 1;
            ((t as u64) * 10000 + nid[t], (t as u32) * 100 + nval[t])
        };
        let (i1, v1) = next(1);
        call(1, i1, "Insert", k, v1, &mut events);
        match rng.below(5) {
            0 => {}
            1 => {
                let (i, _) = next(1);
                call(1, i, "Invalidate", k, 0, &mut events);
            }
            2 => {
                let (i, _) = next(1);
                call(1, i, "Sync", 0, 0, &mut events);
            }
            x => {
                clock.advance(Duration::from_secs(1));
                let (i, _) = next(1);
                call(1, i, "InvalidateAll", 0, 0, &mut events);
                if x == 4 {
                    clock.advance(Duration::from_secs(1));
                }
            }
        }
        let (ia, va) = next(2);
        let aop = *rng.pick(&["Insert", "Insert", "Insert", "Invalidate", "InvalidateAll"]);
        let go = AtomicBool::new(false);
        let adone = AtomicBool::new(false);
        let gets0 = nid[3];
        nid[3] += 400;
        let (mut ea, mut eb): (Vec<(u64, Value)>, Vec<(u64, Value)>) = (Vec::new(), Vec::new());
        std::thread::scope(|sc| {
            let (go, adone, call, clock) = (&go, &adone, &call, &clock);
            let ea = &mut ea;
            let eb = &mut eb;
            sc.spawn(move || {
                while !go.load(SeqCst) {
                    std::hint::spin_loop();
                }
                if aop == "InvalidateAll" {
                    clock.advance(Duration::from_secs(1));
                }
                call(2, ia, aop, if aop == "InvalidateAll" { 0 } else { k }, if aop == "Insert" { va } else { 0 }, ea);
                adone.store(true, SeqCst);
            });
            sc.spawn(move || {
                while !go.load(SeqCst) {
                    std::hint::spin_loop();
                }
                let mut n = 0u64;
                let mut after = 0;
                while n < 300 && after < 2 {
                    if adone.load(SeqCst) {
                        after += 1;
                    }
                    n += 1;
                    call(3, 30000 + gets0 + n, "Get", k, 0, eb);
                }
            });
            std::thread::sleep(Duration::from_micros(30));
            go.store(true, SeqCst);
        });
        events.append(&mut ea);
        // thin out the gets that returned nothing
        let nones: Vec<u64> = eb.iter().filter(|(_, e)| e["ev"] == "Ret" && e["r"] == json!(-1)).map(|(_, e)| e["id"].as_u64().unwrap()).collect();
        let drop: std::collections::HashSet<u64> = if nones.len() > 2 { nones[1..nones.len() - 1].iter().cloned().collect() } else { Default::default() };
        events.extend(eb.into_iter().filter(|(_, e)| !drop.contains(&e["id"].as_u64().unwrap())));
    }
    events.sort_by_key(|(s, _)| *s);
    for (_, e) in events.iter() {
        writeln!(out, "{}", e).unwrap();
    }
    drop(call);
    for e in settle(&cfg, cache, clock, base) {
        writeln!(out, "{}", e).unwrap();
    }
}

/// Bursts without sync(): every call must return (C09); the cache may overshoot its
/// capacity only by the write queue plus one entry per inserting thread (C04).
fn burst(id: u64, threads: usize, n: usize, far: bool, cap: i64, mix: &'static str, out: &mut dyn Write) {
    REGISTRY_ON.store(false, Ordering::SeqCst);
    let cfg = Cfg::from_json(&json!({"kind": "sync", "cap": cap, "nkeys": 64, "hasher": "mix", "seed": id}));
    let (cache, clock, _base) = mk_cache(&cfg);
    if far {
        // leave the periodical-sync interval behind: housekeeping only runs at the flush point
        clock.advance(Duration::from_secs(1));
    }
    let mut cj = cfg.to_json();
    cj["ev"] = json!("Config");
    cj["id"] = json!(id);
    cj["threads"] = json!(threads);
    cj["mode"] = json!(if far { "burst-far" } else { "burst-near" });
    cj["mix"] = json!(mix);
    writeln!(out, "{}", cj).unwrap();
    let done = Arc::new(AtomicU64::new(0));
    let stop = Arc::new(AtomicBool::new(false));
    let maxcount = Arc::new(AtomicU64::new(0));
    let mut hs = Vec::new();
    for t in 0..threads {
        let (cache2, done2, clock2) = (cache.clone(), done.clone(), clock.clone());
        hs.push(std::thread::spawn(move || {
            let mut rng = Rng::new(id * 77 + t as u64);
            for i in 0..n {
                if far && i % 16 == 0 {
                    // stay beyond the periodical-sync interval: every maintenance run re-arms it
                    clock2.advance(Duration::from_secs(1));
                }
                // many distinct keys so that the map really grows between maintenance runs
                let k = (t * n + i) as u32 + 1;
                // "writes": nothing but inserts, so that only the write channel can trigger
                // maintenance; "invs": an insert then nothing but invalidations of absent and
                // present keys (remove ops fill the channel); "reads": hits and misses only
                let c = match mix {
                    "writes" => 0,
                    "invs" => if i % 7 == 0 { 0 } else { 9 },
                    "reads" => if i == 0 { 0 } else { 7 },
                    _ => rng.below(10),
                };
                match c {
                    0..=6 => cache2.insert(K::new(k), Val::new(k, 1)),
                    7 | 8 => {
                        let _ = cache2.get(&K::probe(1 + rng.below(k as u64) as u32));
                    }
                    _ => cache2.invalidate(&K::probe(1 + rng.below(k as u64) as u32)),
                }
                done2.fetch_add(1, Ordering::SeqCst);
            }
        }));
    }
    // a sampler watching the physical size while the burst runs
    let (cache3, stop3, max3) = (cache.clone(), stop.clone(), maxcount.clone());
    let sampler = std::thread::spawn(move || {
        while !stop3.load(Ordering::SeqCst) {
            let c = cache3.iter().count() as u64;
            max3.fetch_max(c, Ordering::SeqCst);
            std::thread::sleep(Duration::from_micros(200));
        }
    });
    let start = Instant::now();
    let mut hang = false;
    loop {
        if hs.iter().all(|h| h.is_finished()) {
            break;
        }
        if start.elapsed() > Duration::from_secs(120) {
            hang = true;
            break;
        }
        std::thread::sleep(Duration::from_millis(2));
    }
    stop.store(true, Ordering::SeqCst);
    let _ = sampler.join();
    let completed = done.load(Ordering::SeqCst);
    if hang {
        writeln!(out, "{}", json!({"ev": "Timeout", "what": "burst did not finish in 120 s", "completed": completed})).unwrap();
        out.flush().unwrap();
        std::process::exit(3);
    }
    for h in hs {
        let _ = h.join();
    }
    writeln!(out, "{}", json!({"ev": "Burst", "ops": threads * n, "completed": completed, "threads": threads,
        "far": far, "ms": start.elapsed().as_millis() as u64})).unwrap();
    writeln!(out, "{}", json!({"ev": "Overshoot", "count": maxcount.load(Ordering::SeqCst), "cap": cap, "threads": threads,
        "wlog": 384})).unwrap();
    // maintenance still works afterwards
    cache.sync();
    cache.sync();
    let (rl, wl) = cache.verif_channel_lens();
    writeln!(out, "{}", json!({"ev": "Settled", "rlen": rl, "wlen": wl, "ec": cache.entry_count(), "count": cache.iter().count(), "cap": cap})).unwrap();
}

/// C16 beside writers: every key of a fixed set is updated by exactly one writer thread with
/// increasing sequence numbers while iterator threads walk the cache. Logged: per key the
/// (invoke, return) stamps of every write; per iteration its stamps and what it yielded.
fn iter_beside_writers(id: u64, nkeys: u32, writers: usize, iters: usize, updates: usize, out: &mut dyn Write) {
    REGISTRY_ON.store(false, Ordering::SeqCst);
    let cfg = Cfg::from_json(&json!({"kind": "sync", "cap": -1, "nkeys": nkeys, "hasher": "mix", "seed": id}));
    let (cache, _clock, _base) = mk_cache(&cfg);
    let mut cj = cfg.to_json();
    cj["ev"] = json!("Config");
    cj["id"] = json!(id);
    cj["threads"] = json!(writers + iters);
    cj["mode"] = json!("iter");
    writeln!(out, "{}", cj).unwrap();
    // value id = sequence number of the write of that key (0: the initial insert)
    for k in 1..=nkeys {
        cache.insert(K::new(k), Val::new(0, 1));
    }
    cache.sync();
    let stamp = Arc::new(AtomicU64::new(1));
    let stop = Arc::new(AtomicBool::new(false));
    let mut whs = Vec::new();
    for w in 0..writers {
        let (cache2, stamp2) = (cache.clone(), stamp.clone());
        whs.push(std::thread::spawn(move || {
            // this writer owns the keys k with k % writers == w
            let mine: Vec<u32> = (1..=nkeys).filter(|k| (*k as usize) % writers == w).collect();
            let mut log: Vec<(u32, Vec<(u64, u64)>)> = mine.iter().map(|k| (*k, Vec::new())).collect();
            let mut rng = Rng::new(id * 131 + w as u64);
            for _ in 0..updates {
                if mine.is_empty() {
                    break;
                }
                let i = rng.below(mine.len() as u64) as usize;
                let seq = log[i].1.len() as u32 + 1;
                let a = stamp2.fetch_add(1, Ordering::SeqCst);
                cache2.insert(K::new(mine[i]), Val::new(seq, 1));
                let b = stamp2.fetch_add(1, Ordering::SeqCst);
                log[i].1.push((a, b));
            }
            log
        }));
    }
    let mut ihs = Vec::new();
    for _ in 0..iters {
        let (cache2, stamp2, stop2) = (cache.clone(), stamp.clone(), stop.clone());
        ihs.push(std::thread::spawn(move || {
            let mut runs: Vec<Value> = Vec::new();
            while !stop2.load(Ordering::SeqCst) && runs.len() < 40 {
                let a = stamp2.fetch_add(1, Ordering::SeqCst);
                let mut items: Vec<(u32, u32)> = cache2.iter().map(|e| (e.key().id, e.value().id)).collect();
                let b = stamp2.fetch_add(1, Ordering::SeqCst);
                items.sort();
                runs.push(json!({"ev": "IterRun", "inv": a, "ret": b,
                    "items": items.iter().map(|(k, s)| json!({"k": k, "s": s})).collect::<Vec<_>>()}));
                std::thread::sleep(Duration::from_micros(300));
            }
            runs
        }));
    }
    let mut kw: Vec<(u32, Vec<(u64, u64)>)> = Vec::new();
    for h in whs {
        kw.extend(h.join().unwrap());
    }
    stop.store(true, Ordering::SeqCst);
    kw.sort_by_key(|x| x.0);
    for (k, w) in kw {
        writeln!(out, "{}", json!({"ev": "KeyWrites", "k": k, "w": w.iter().map(|(a, b)| json!([a, b])).collect::<Vec<_>>()})).unwrap();
    }
    for h in ihs {
        for r in h.join().unwrap() {
            writeln!(out, "{}", r).unwrap();
        }
    }
}

pub fn cmd_free(args: &[String]) {
    if args[0] == "iter" {
        // free iter <seed> <runs> <trace-out>
        let seed: u64 = args[1].parse().unwrap();
        let runs: u64 = args[2].parse().unwrap();
        let mut out = std::io::BufWriter::new(std::fs::File::create(&args[3]).unwrap());
        let mut rng = Rng::new(seed);
        for i in 0..runs {
            let nkeys = *rng.pick(&[8u32, 16, 24]);
            let writers = 1 + rng.below(3) as usize;
            let iters = 1 + rng.below(2) as usize;
            iter_beside_writers(seed * 1000 + i, nkeys, writers, iters, 300, &mut out);
        }
        println!("{}", json!({"runs": runs}));
        return;
    }
    // free stress <seed> <runs> <threads> <ops> <trace-out> | free burst <seed> <trace-out>
    if args[0] == "race" {
        // free race <seed> <behaviours> <attempts> <trace-out>
        let seed: u64 = args[1].parse().unwrap();
        let runs: u64 = args[2].parse().unwrap();
        let attempts: usize = args[3].parse().unwrap();
        let mut out = std::io::BufWriter::new(std::fs::File::create(&args[4]).unwrap());
        for id in 0..runs {
            race(id, attempts, seed * 1000 + id, &mut out);
        }
        println!("{}", json!({"runs": runs}));
        return;
    }
    if args[0] == "stress" {
        let seed: u64 = args[1].parse().unwrap();
        let runs: u64 = args[2].parse().unwrap();
        let threads: usize = args[3].parse().unwrap();
        let ops: usize = args[4].parse().unwrap();
        let mut out = std::io::BufWriter::new(std::fs::File::create(&args[5]).unwrap());
        let mut rng = Rng::new(seed);
        for id in 0..runs {
            let cap = *rng.pick(&[-1i64, 1, 2, 3]);
            let cfg = Cfg::from_json(&json!({"kind": "sync", "cap": cap, "nkeys": 3, "hasher": "id", "weigher": false}));
            stress(id, &cfg, threads, ops, seed * 100 + id, &mut out);
        }
        println!("{}", json!({"runs": runs}));
    } else {
        let seed: u64 = args[1].parse().unwrap();
        let n: usize = args[2].parse().unwrap();
        let mut out = std::io::BufWriter::new(std::fs::File::create(&args[3]).unwrap());
        let mut id = seed * 10;
        for far in [false, true] {
            for threads in [1usize, 8] {
                for cap in [-1i64, 100] {
                    for mix in ["mixed", "writes", "invs", "reads"] {
                        if mix != "mixed" && (cap == -1) != (threads == 1) {
                            continue;
                        }
                        burst(id, threads, n, far, cap, mix, &mut out);
                        id += 1;
                    }
                }
            }
        }
        println!("{}", json!({"runs": id - seed * 10}));
    }
}
